(* Check/C12.v -- correspondence between /repo's pagination (layout.Layout on
   generated documents, go/cmd/c12) and Layout/Paginate.v + PaginateSpec.v.

   A case is a document and the pages the implementation produced.  `check`
   evaluates the *specification predicates* on the implementation's pages
   (always) and compares with the model's `paginate` only on the class where
   paginate_unique licenses equality.

   codes: 0 agree; 2 skipped (flow outside the modelled domain);
     3 content not conserved (a unit lost, duplicated or out of order) -- also C02
     4 page sequence wrong (index / side / first / blank page / page name)
     1 page box geometry differs from the @page cascade + width/height equation
     9 page counters wrong in the margin box
     5 a forced break lies inside a page
     13 the bottom padding / border of a block overflows the page although an earlier legal
        break exists (every line / box itself fits)
     6 content overflows the page although an earlier legal break exists
     7 page ends early: a later legal break would still fit
     8 avoid / orphans / widows not honoured although a conforming break exists
     10 vertical positions of the units differ from the stacking model
     11 pagination differs from the model on the paginate_unique class
     12 the implementation crashed / hung on the document
     16 the bottom padding / border of a block that does not start the page overflows it
        (13: only that of blocks that start / resume at the page top; 18: fits when the bottom
        margins enclosed by such padding are not counted)
     19 a page ends early and the content pushed to the next page has a block with bottom
        padding / border that encloses a bottom margin of its last descendants (7: without that)
     17 a page ends early, but not when "still fits" is judged with the room the second layout
        of inFlowLayout reserves (bottom padding / border of a block reserved for all its
        fragments); possibly together with the readings of 14 / 15
     20 (case CMBox) the numbers a page-margin box shows differ from Layout/PaginateCounters.v:
        every margin box evaluates its own counter-* declarations and its content on a copy
        of the page's counter state (page = position of the page, pages = number of pages) *)
From Verif Require Export Layout.Paginate Layout.PaginateSpec Layout.PaginateCounters.
From Coq Require Import QArith List NArith ZArith Bool Arith.
Import ListNotations.
Local Open Scope nat_scope.

Record iunit := IU { iu_id : nat; iu_top : Q; iu_bot : Q }.
Inductive ictr := Ctr (p t : N).
Record ipage := mkIPage {
  i_w : Q; i_h : Q; i_mt : Q; i_mr : Q; i_mb : Q; i_ml : Q;
  i_side : N; i_blank : bool; i_first : bool; i_index : Z; i_name : N;
  i_units : list iunit; i_ctr : option ictr }.

(* CMBox: the margin rules of the document's base @page rule (besides @bottom-center) and, per
   page, per rule, the numbers the laid-out margin box shows (one list per counter() /
   counters() of its content) *)
Inductive case :=
| CDoc (d : doc) (ps : list ipage)
| CCrash (d : doc)
| CMBox (bs : list mbox) (shown : list (list (list (list Z)))).

Section Reading.
(* which reading of "change of named page" is used: true = CSS Page 3 *)
Variable css_names : bool.
(* true = "the content up to a later break would still fit" is judged with the bottomSpace
   the second layouts of inFlowLayout reserve (Paginate.reserve) *)
Variable retry_reading : bool.

Definition i_ptype (p : ipage) : ptype := mkPT (i_side p) (i_blank p) (i_first p) (i_index p) (i_name p).
Definition i_ids (p : ipage) : list nat := map iu_id (i_units p).

Fixpoint list_eqb {A B} (eqb : A -> B -> bool) (l1 : list A) (l2 : list B) : bool :=
  match l1, l2 with
  | [], [] => true
  | a :: r1, b :: r2 => eqb a b && list_eqb eqb r1 r2
  | _, _ => false
  end.

Definition ptype_eqb (a b : ptype) : bool :=
  N.eqb (p_side a) (p_side b) && Bool.eqb (p_blank a) (p_blank b) && Bool.eqb (p_first a) (p_first b) &&
  (p_index a =? p_index b)%Z && N.eqb (p_name a) (p_name b).

(* content pages of the implementation as ranges, with the model's page-maker state threaded *)
Fixpoint attach_states (us : list unit) (rtl : bool) (st : pstate) (rs : list (nat * nat))
  : list (pstate * nat * nat) :=
  match rs with
  | [] => []
  | (s, e) :: r => (st, s, e) :: attach_states us rtl (next_pstate css_names rtl us st s) r
  end.

Definition content_ranges (ps : list ipage) : list (nat * nat) :=
  flat_map (fun p => match i_ids p with
                     | [] => []
                     | s :: _ => [(s, s + length (i_ids p))]
                     end) ps.

(* the pinfo list of the implementation's pages: each content page is annotated
   with what the flow requests for it *)
Definition pinfos (d : doc) (us : list unit) (ps : list ipage) : list pinfo :=
  map (fun p => mkPI (i_ptype p)
         (match i_ids p with
          | [] => if i_blank p then None
                  else (* a non-blank page without content: only the single page of an empty document *)
                    Some (0%N, 0%N)
          | s :: _ => Some (next_page_side (d_rtl d) (incoming_brk css_names us s), page_name_at css_names us s)
          end)) ps.

Definition geom_eqb (g : geom) (p : ipage) : bool :=
  Qeq_bool (g_w g) (i_w p) && Qeq_bool (g_h g) (i_h p) && Qeq_bool (g_mt g) (i_mt p) &&
  Qeq_bool (g_mr g) (i_mr p) && Qeq_bool (g_mb g) (i_mb p) && Qeq_bool (g_ml g) (i_ml p).

Fixpoint counters_b (i : nat) (total : nat) (ps : list ipage) : bool :=
  match ps with
  | [] => true
  | p :: r => match i_ctr p with
              | Some (Ctr a b) => N.eqb a (N.of_nat (S i)) && N.eqb b (N.of_nat total)
              | None => false
              end && counters_b (S i) total r
  end.

Definition positions_eqb (m : list (Z * Z)) (l : list iunit) : bool :=
  list_eqb (fun (a : Z * Z) (u : iunit) =>
              Qeq_bool (inject_Z (fst a)) (iu_top u) && Qeq_bool (inject_Z (snd a)) (iu_bot u)) m l.

Definition first_failing (l : list (bool * N)) : N :=
  match find (fun x => negb (fst x)) l with
  | Some (_, c) => c
  | None => 0%N
  end.

(* the blocks opened on the page after its first unit that are still open at its last unit:
   they are the innermost closers of that unit; the other closers belong to blocks that contain
   the first unit of the page (they start or resume at the page top) *)
Fixpoint open_in_range (d : nat) (l : list unit) : nat :=
  match l with
  | [] => d
  | [u] => d + length (u_opens u)
  | u :: r => open_in_range (d + length (u_opens u) - length (u_closes u)) r
  end.

(* stacking as the second layout of inFlowLayout sees it: a bottom margin enclosed by the bottom
   padding / border of an ancestor is not counted when the children are placed again
   (known deviation C12/block-pushed-when-margin-inside-bottom-padding-overflows) *)
Definition scan1_nm (st : sst) (t : tok) : sst :=
  match t with
  | TC pb mb => if (0 <? pb)%Z then mkSst (s_y st + pb) (Z.max 0 mb) 0 else scan1 st t
  | _ => scan1 st t
  end.

(* bottom edge of the page's content including the bottom padding / border of the blocks that
   were opened on the page after its first unit only *)
Definition extent_inner (scan : sst -> tok -> sst) (km : bool) (us : list unit) (s e : nat) : Z :=
  match units_between us s e with
  | [] => 0%Z
  | u0 :: r =>
      let d := match r with [] => 0 | _ => open_in_range 0 r end in
      let last := unit_at us (e - 1) in
      let outer := length (u_closes last) - Nat.min d (length (u_closes last)) in
      let toks := page_toks us s e in
      s_y (fold_left scan (firstn (length toks - outer) toks) (init_sst km))
  end.

Definition check_doc (d : doc) (ps : list ipage) : N :=
  let us := lin_flows (d_flow d) in
  if negb (forallb wf_flow (d_flow d) && forallb wf_unit_b us) then 2%N else
  let n := length us in
  let rtl := d_rtl d in
  let ids := flat_map i_ids ps in
  if negb (list_eqb Nat.eqb ids (seq 0 n)) then 3%N else
  let rs := attach_states us rtl (init_pstate d) (content_ranges ps) in
  let forced := forced_at css_names us in
  let allowed := allowed_at us in
  let fits := fits_doc css_names d us in
  let fits_r := if retry_reading then fits_retry css_names d us else fits in
  let all (f : pstate * nat * nat -> bool) := forallb f rs in
  (* the units themselves fit (only the padding / border of the blocks closing after the last one may not) *)
  let content_fits (r : pstate * nat * nat) :=
    let '(st, s, e) := r in
    Qle_bool (inject_Z (content_extent (keep_margins css_names us s) us s e))
             (page_height (d_rules d) (content_ptype css_names rtl us st s)) in
  (* ... and so does the bottom padding / border of the blocks that do not start the page *)
  let inner_fits (r : pstate * nat * nat) :=
    let '(st, s, e) := r in
    Qle_bool (inject_Z (extent_inner scan1 (keep_margins css_names us s) us s e))
             (page_height (d_rules d) (content_ptype css_names rtl us st s)) in
  let inner_nm_fits (r : pstate * nat * nat) :=
    let '(st, s, e) := r in
    Qle_bool (inject_Z (extent_inner scan1_nm (keep_margins css_names us s) us s e))
             (page_height (d_rules d) (content_ptype css_names rtl us st s)) in
  (* structural trigger of the known deviation "a bottom margin enclosed by the bottom padding /
     border of a block is not counted by its second layout": between the end of the page and the
     next forced break a block with bottom padding / border ends with a descendant that has a
     bottom margin *)
  let blocks := blocks_of us in
  let mbpb_after (r : pstate * nat * nat) :=
    let '(_, s, e) := r in
    existsb (fun a => (e <=? b_first a) && (b_last a <? cap n forced s) && (0 <? b_dec a)%Z &&
                      existsb (fun c => (0 <? c_mb c)%Z) (firstn (b_pos a) (u_closes (unit_at us (b_last a)))))
            blocks in
  let content := filter (fun p => negb (match i_ids p with [] => true | _ => false end)) ps in
  let model := paginate css_names d in
  first_failing [
    (page_seq_ok_b (first_page_right rtl (d_root_bb d)) 0 (pinfos d us ps) &&
       negb (match ps with [] => true | _ => false end), 4%N);
    (forallb (fun p => geom_eqb (page_box_geometry (d_rules d) (i_ptype p)) p) ps, 1%N);
    (counters_b 0 (length ps) ps, 9%N);
    (all (forced_inside_free_b pstate forced), 5%N);
    (all (fun r => no_avoidable_overflow_b pstate allowed fits r || negb (content_fits r) || inner_nm_fits r), 16%N);
    (all (fun r => no_avoidable_overflow_b pstate allowed fits r || negb (content_fits r) || inner_fits r), 18%N);
    (all (fun r => no_avoidable_overflow_b pstate allowed fits r || negb (content_fits r)), 13%N);
    (all (no_avoidable_overflow_b pstate allowed fits), 6%N);
    (all (fun r => no_early_end_b pstate n forced allowed fits_r r || mbpb_after r), 7%N);
    (all (no_early_end_b pstate n forced allowed fits_r), 19%N);
    (all (soft_if_possible_b pstate n forced allowed fits_r), 8%N);
    (list_eqb (fun (r : pstate * nat * nat) (p : ipage) =>
                 let '(_, s, e) := r in
                 positions_eqb (positions (keep_margins css_names us s) us s e) (i_units p)) rs content, 10%N);
    (retry_reading || negb (all (conforming_exists_b pstate n forced allowed fits)) ||
       list_eqb (fun (m : page) (p : ipage) =>
                   ptype_eqb (pg_type m) (i_ptype p) && list_eqb Nat.eqb (pg_units m) (i_ids p)) model ps, 11%N)
  ].

End Reading.

(* the implementation's reading of `:nth(0n+0)`: pageIndex.IsNone (tree/tree.go:234)
   cannot tell it from "no :nth()", so the selector loses its index condition (but keeps
   the specificity of one): :nth(1n+1) matches every page *)
Definition drop_nth_zero (d : doc) : doc :=
  mkDoc (d_rtl d) (d_root_bb d)
    (map (fun r => mkRule
       (map (fun s => match s_nth s with
                      | Some (NthAB 0 0) => mkSel (s_name s) (s_side s) (s_blank s) (s_first s) (Some (NthAB 1 1))
                      | _ => s
                      end) (r_sels r)) (r_decls r)) (d_rules d))
    (d_flow d).

(* 14: the pages are right under the implementation's reading of named pages
   (a change back to the unnamed page is not a page change and the page keeps the
   previous name) but not under CSS Page 3.
   15: right only when `:nth(0n+0)` is read as "no index condition". *)
Definition check (c : case) : N :=
  match c with
  | CDoc d ps =>
      let k := check_doc true false d ps in
      if N.eqb k 0 then 0%N
      else if N.eqb (check_doc false false d ps) 0 then 14%N
      else let d' := drop_nth_zero d in
           if N.eqb (check_doc true false d' ps) 0 then 15%N
           else let k' := check_doc false false d' ps in
                if N.eqb k' 0 then 15%N
                else if N.eqb k' 7 || N.eqb k' 8 || N.eqb k' 19 then
                  (* a page ends early / a soft constraint is broken: judged again with the
                     room the second layouts of inFlowLayout reserve; what is left is named
                     under that reading *)
                  let kr := check_doc false true d' ps in
                  if N.eqb (check_doc true true d ps) 0 || N.eqb (check_doc false true d ps) 0 ||
                     N.eqb (check_doc true true d' ps) 0 || N.eqb kr 0
                  then 17%N else kr
                else k'
  | CCrash d => if forallb wf_flow (d_flow d) then 12%N else 2%N
  | CMBox bs shown =>
      if negb (forallb in_range bs) then 2%N
      else if list_eqb (list_eqb (list_eqb (list_eqb Z.eqb))) shown (doc_margin_texts (length shown) bs)
      then 0%N else 20%N
  end.

(* what the model paginates the document to (printed in replays): per page
   (side, blank, index, name, units, content-box height) *)
Definition model_out (c : case) : list (N * bool * Z * N * list nat * Q) :=
  match c with
  | CMBox bs shown =>
      (* per page: (0, false, page number, 0, the numbers of all its margin boxes in a row, 0);
         negative numbers are shown as 0 *)
      map (fun i => (0%N, false, Z.of_nat (S i), 0%N,
                     map Z.to_nat (concat (concat (margin_texts (page_values i (length shown)) bs))), 0%Q))
          (seq 0 (length shown))
  | _ =>
  let d := match c with CDoc d _ => d | CCrash d => d | CMBox _ _ => mkDoc false BAuto [] [] end in
  map (fun p => (p_side (pg_type p), p_blank (pg_type p), p_index (pg_type p), p_name (pg_type p),
                 pg_units p, Qred (g_h (pg_geom p)))) (paginate true d)
  end.

Fixpoint mismatches (i : N) (cs : list case) : list (N * N) :=
  match cs with
  | [] => []
  | c :: r => let k := check c in
              if N.eqb k 0 then mismatches (N.succ i) r else (i, k) :: mismatches (N.succ i) r
  end.
