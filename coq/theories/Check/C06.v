(* Check/C06.v -- correspondence between /repo/css/parser (tokenizer.go,
   parser.go, nth.go, colors.go) and the models Css/Tok.v, Css/Parse.v, Css/Color.v.

   The Go harness (go/cmd/c06) writes one `case` per implementation run: the
   entry point, its flags, the input as the list of code points of the (valid
   UTF-8) source text, whether the implementation panicked, and the complete
   result: every token with kind, unescaped value, unit, number
   representation, integer flag, hash id flag, string/url EOF flags,
   parse-error kind, line and byte column; compounds with their position,
   prelude/content/value, !important flag, at-rule content nil-ness.
   Not compared: float32 values of numeric tokens (strconv is trusted; the
   representation and the flag are compared), error messages.
   CColor: ParseColorString; compared: invalid / currentColor / RGBA with the four float32
   components as exact rationals against the model run with rnd32 / rnd64 (Css/Color.v floatA).

   codes: 0 agree; 1 results differ; 2 skipped (An+B value outside int64: Go's
   float32 -> int conversion is implementation-dependent there); 3 implementation panicked
   where the model returns a value; 4 model panics / runs out of fuel where the
   implementation returned. *)
From Verif Require Export Base.GoSem Css.Token Css.TokenEq Css.Tok Css.Parse Css.Color.
From Coq Require Import List NArith ZArith Bool QArith.
Import ListNotations.

Inductive nth_out := NthNone | NthSome (a b : Z).
(* what ParseColorString returned: the colour (float32 components as exact rationals), or a colour
   with a non-finite component (only possible when a numeric token overflows float32: skipped) *)
Inductive color_obs := ObsColor (c : color) | ObsNonFinite.

Inductive case :=
| CTok (skip : bool) (src : list N) (crashed : bool) (out : list token)
| CSheet (skipc skipw : bool) (src : list N) (crashed : bool) (out : list compound)
| CBlocks (src : list N) (crashed : bool) (out : list compound)
| CDecls (skipc skipw : bool) (src : list N) (crashed : bool) (out : list compound)
| COneDecl (skip : bool) (src : list N) (crashed : bool) (out : list compound)   (* singleton *)
| CNth (src : list N) (crashed : bool) (out : nth_out)
| CColor (src : list N) (crashed : bool) (out : color_obs).

(* the model of the code as it is now in /repo (all fix commits applied) *)
Definition FX := true.

Inductive observable :=
| OTokens (r : res (list token))
| OCompounds (r : res (list compound))
| ONth (r : res nth_out)
| OColor (r : res color_obs).

Definition model_out (c : case) : observable :=
  match c with
  | CTok skip src _ _ => OTokens (tokenize FX skip src)
  | CSheet sc sw src _ _ => OCompounds (parse_stylesheet_bytes FX src sc sw)
  | CBlocks src _ _ => OCompounds (parse_blocks_contents_string FX src)
  | CDecls sc sw src _ _ => OCompounds (parse_declaration_list_string FX src sc sw)
  | COneDecl skip src _ _ =>
      OCompounds (let* ts := tokenize FX skip src in Ok [parse_one_declaration FX ts])
  | CNth src _ _ =>
      ONth (let* o := parse_nth_string FX src in
            Ok (match o with Some (a, b) => NthSome a b | None => NthNone end))
  | CColor src _ _ => OColor (res_map ObsColor (parse_color_string floatA FX src))
  end.

Definition cmp {A} (eqb : A -> A -> bool) (r : res A) (crashed : bool) (out : A) : N :=
  match r with
  | Ok m => if crashed then 3%N else if eqb m out then 0%N else 1%N
  | _ => if crashed then 0%N else 4%N
  end.

Definition nth_eqb (a b : nth_out) : bool :=
  match a, b with
  | NthNone, NthNone => true
  | NthSome x y, NthSome x' y' => Z.eqb x x' && Z.eqb y y'
  | _, _ => false
  end.

(* int(float32) of a value >= 2^63 is implementation-dependent in Go (amd64 yields
   math.MinInt64): such An+B results are skipped (code 2) *)
Definition in_int64 (z : Z) : bool := ((- 9223372036854775808 <=? z) && (z <=? 9223372036854775807))%Z.
Definition nth_skipped (r : res nth_out) : bool :=
  match r with
  | Ok (NthSome a b) => negb (in_int64 a && in_int64 b)
  | _ => false
  end.

Definition color_eqb (a b : color) : bool :=
  match a, b with
  | ColorInvalid, ColorInvalid | ColorCurrent, ColorCurrent => true
  | ColorRGBA r g b a, ColorRGBA r' g' b' a' => Qeq_bool r r' && Qeq_bool g g' && Qeq_bool b b' && Qeq_bool a a'
  | _, _ => false
  end.
Definition color_obs_eqb (a b : color_obs) : bool :=
  match a, b with
  | ObsColor x, ObsColor y => color_eqb x y
  | _, _ => false
  end.
(* a numeric argument outside the float32 range / an integer that int(float32) cannot represent: skipped *)
Definition color_skipped (src : list N) : bool :=
  match tokenize FX true src with
  | Ok ts => negb (color_in_domain (parse_one_component_value ts))
  | _ => false
  end.

Definition check (c : case) : N :=
  match c, model_out c with
  | CNth _ cr out, ONth r => if nth_skipped r then 2%N else cmp nth_eqb r cr out
  | CColor src cr out, OColor r => if color_skipped src then 2%N else cmp color_obs_eqb r cr out
  | CTok _ _ cr out, OTokens r => cmp tokens_eqb r cr out
  | CSheet _ _ _ cr out, OCompounds r | CBlocks _ cr out, OCompounds r
  | CDecls _ _ _ cr out, OCompounds r | COneDecl _ _ cr out, OCompounds r => cmp compounds_eqb r cr out
  | _, _ => 1%N
  end.

Fixpoint mismatches (i : N) (cs : list case) : list (N * N) :=
  match cs with
  | [] => []
  | c :: r => let k := check c in
              if N.eqb k 0 then mismatches (N.succ i) r else (i, k) :: mismatches (N.succ i) r
  end.
