(* Check/C13.v -- correspondence between /repo's table layout
   (html/layout/tables.go) and the model of Layout/TableGeom.v, evaluated
   with the float32 instance, plus the specification predicates of
   Layout/TableGeomSpec.v evaluated on what the implementation produced.
   codes: 0 agree; 1 horizontal geometry differs (column positions, cell x /
   width / border-box width, cells kept); 3 the column widths violate the
   contract (negative width, columns + spacing do not fill the table width,
   table narrower than its specified width); 4 fixedTableLayout's widths /
   table width differ from the model; 5 implementation panicked where the
   model returns; 6 model panics where the implementation returned; 8
   vertical geometry differs (row / group positions and heights, cell y, final
   cell heights); 9 the auto layout counted border-spacing only for the columns
   in which a cell originates (table narrower than its columns + spacing); 10 a
   cell does not reach the bottom of the last row it spans; 12 the auto layout
   made the table narrower than its specified width; 13 the GridX / Colspan /
   Rowspan of the cells or the order / header / footer role of the row groups
   differ from the slot model run on the table STRUCTURE (Box/TableGridPlain.v:
   nothing is read back from the implementation); 14 the laid-out table does not
   have the number of columns of the model's grid; 15 the structural facts the
   harness computed for the tags (grid width, columns with an originating cell)
   differ from the model's (harness defect); 16 autoTableLayout's column widths or
   used table width differ from the float32 model run on the preferred widths the
   implementation computed; 17 those preferred widths satisfy the hypotheses of
   C13_auto_layout_fills but the columns + total spacing are not the used width;
   18 (table split across pages, every fragment read after the whole layout) the
   ColumnPositions of a fragment are not the model's for that fragment's own
   content box and column widths; 19 a cell of a fragment is not on its columns;
   20 (23 in the fixed layout) a laid-out cell has a negative used (content) width; 21 auto layout: a
   cell's used content width is smaller than the min-content width of its
   content (widest word of the cell, from the generator's specification of the
   document, never from the boxes); 22 the laid-out table (or the preferred
   widths / autoTableLayout / fixedTableLayout run on it) has a NaN or infinite
   width, position or size: such a value cannot be written as a Q, the harness
   reports the table instead of comparing it; 24 direction: rtl: the column
   positions (running from the right edge of the content box) or a cell's x (the
   position of the LAST column it spans) / width / border-box width differ from
   the float32 model (Layout/TableGeom.v column_positions_rtl, cell_horizontal_rtl;
   C13_cell_horizontal_rtl: the cell covers exactly its columns). *)
From Verif Require Export Base.F32 Base.GoSem Layout.TableGeom Layout.TableGeomSpec Box.TableGridPlain Layout.TableGeomAuto.
From Coq Require Import QArith List ZArith NArith Bool.
Import ListNotations.
Open Scope Q_scope.

Inductive oq := ON | OS (v : Q).
Definition oq_opt (o : oq) : option Q := match o with ON => None | OS v => Some v end.

Inductive fcell_in := FC (colspan : Z) (bw : oq).
Inductive hcell_in := HC (gridx colspan : Z) (pl pr bl br : Q).
Inductive hobs := HO (colspan : Z) (x w bw : Q).
Inductive hrow := HRow (ins : list hcell_in) (obs : list hobs).
Inductive vcell_in := VC (rowspan : Z) (natural_bh : Q).
Inductive vrow_in := VIn (spec_h : oq) (cells : list vcell_in).
Inductive vobs := VO (y bh : Q).
Inductive vrow := VRow (y h : Q) (cells : list vobs).
Inductive vgroup := VGroup (y h : Q) (rows : list vrow_in) (obs : list vrow).

(* the table as the document gives it: row groups in document order (kind 0
   tbody, 1 thead, 2 tfoot), rows, cells with their colspan / rowspan attributes *)
Inductive gcell_in := GC (colspan_attr rowspan_attr : Z).
Inductive ggroup_in := GG (kind : N) (rows : list (list gcell_in)).
(* the table box returned by BuildFormattingStructure: its row groups (role 0
   body, 1 IsHeader, 2 IsFooter) in the order of its children *)
Inductive gcell_obs := GO (gridx colspan rowspan : Z).
Inductive ggroup_obs := GOG (role : N) (rows : list (list gcell_obs)).

(* one column as tableAndColumnsPreferredWidths described it *)
Inductive acol_in := AC (mn mx pct : Q) (constrained has_cell no_max_content : bool).

(* the part of a table laid out on one page, read after the WHOLE document was
   laid out: content box x, horizontal border spacing, ColumnWidths,
   ColumnPositions, rows (inputs: GridX / Colspan / paddings / borders of the
   fragment's own cells) *)
Inductive frag := Frag (x0 bsx : Q) (widths positions : list Q) (rows : list hrow).

(* a laid-out cell: used content width, min-content width of its content *)
Inductive ccell := CCell (w mc : Q).

Inductive case :=
| CCells (auto : bool) (cells : list ccell)
| CNonFinite (site ncols nbad : N)
| CPaged (frags : list frag)
| CAuto (width : oq) (avail tmin tmax spacing : Q) (cols : list acol_in) (status : N) (out_cw : list Q) (out_w : Q)
| CGrid (groups : list ggroup_in) (obs : list ggroup_obs) (auto : bool) (ncols : Z) (claim_width claim_norig : Z)
| CFixed (w0 : Q) (cols : list oq) (cells : list fcell_in) (bsx : Q) (status : N) (out_cw : list Q) (out_w : Q)
| CHoriz (x0 bsx : Q) (widths positions : list Q) (rows : list hrow)
| CVert (y0 bsy : Q) (groups : list vgroup)
| CWidths (fixed : N) (norig : N) (table_w spec : Q) (has_spec : bool) (bsx : Q) (widths : list Q)
(* direction: rtl -- content box x and used width of the table (the columns run
   from x0 + tw), the rest as CHoriz *)
| CHorizRtl (x0 tw bsx : Q) (widths positions : list Q) (rows : list hrow).

Fixpoint qlist_eqb (l1 l2 : list Q) : bool :=
  match l1, l2 with
  | [], [] => true
  | a :: r1, b :: r2 => Qeq_bool a b && qlist_eqb r1 r2
  | _, _ => false
  end.

Definition slack : Q := 1 # 64.

Definition fcell_of (c : fcell_in) : fcell := let 'FC cs bw := c in mkF cs (oq_opt bw).
Definition hcell_of (c : hcell_in) : hcell := let 'HC gx cs pl pr bl br := c in mkH gx cs pl pr bl br.
Definition vcell_of (c : vcell_in) : vcell := let 'VC rs bh := c in mkV rs bh.
Definition vrow_of (r : vrow_in) : option Q * list vcell := let 'VIn h cs := r in (oq_opt h, map vcell_of cs).

Definition hobs_eqb (m : Z * Q * Q * Q) (o : hobs) : bool :=
  let '(cs, x, w, bw) := m in let 'HO cs' x' w' bw' := o in
  Z.eqb cs cs' && Qeq_bool x x' && Qeq_bool w w' && Qeq_bool bw bw'.
Fixpoint list_eqb2 {A B} (f : A -> B -> bool) (l1 : list A) (l2 : list B) : bool :=
  match l1, l2 with
  | [], [] => true
  | a :: r1, b :: r2 => f a b && list_eqb2 f r1 r2
  | _, _ => false
  end.

Definition horiz_row_ok (widths positions : list Q) (bsx : Q) (r : hrow) : N :=
  let 'HRow ins obs := r in
  match row_horizontal f32 widths positions bsx (map hcell_of ins) with
  | Ok m => if list_eqb2 hobs_eqb m obs then 0%N else 1%N
  | _ => 6%N
  end.

Definition horiz_row_rtl_ok (widths positions : list Q) (bsx : Q) (r : hrow) : N :=
  let 'HRow ins obs := r in
  match row_horizontal_rtl f32 widths positions bsx (map hcell_of ins) with
  | Ok m => if list_eqb2 hobs_eqb m obs then 0%N else 24%N
  | _ => 6%N
  end.

Fixpoint first_nonzero (l : list N) : N :=
  match l with [] => 0%N | x :: r => if N.eqb x 0 then first_nonzero r else x end.

(* one fragment against the model run on its own page geometry (code 18: the
   column positions of a fragment are not those of its own content box and
   column widths; 19: a cell of a fragment is not where its columns are) *)
Definition frag_check (f : frag) : N :=
  let 'Frag x0 bsx widths positions rows := f in
  if negb (qlist_eqb (nth_default [] (fragments_positions f32 bsx [(x0, widths)]) 0) positions) then 18%N
  else match first_nonzero (map (horiz_row_ok widths positions bsx) rows) with
       | 0%N => 0%N | 6%N => 6%N | _ => 19%N
       end.

(* vertical: compare one group *)
Definition nth_obs (rows : list vrow) (r i : nat) : option vobs :=
  match nth_error rows r with
  | Some (VRow _ _ cells) => nth_error cells i
  | None => None
  end.

Definition vert_group_ok (m : Q * Q * list row_out) (g : vgroup) : bool :=
  let '(gy, gh, outs) := m in
  let 'VGroup oy oh _ obs := g in
  Qeq_bool gy oy && Qeq_bool gh oh &&
  list_eqb2 (fun (ro : row_out) (o : vrow) =>
               let 'VRow y h cells := o in
               Qeq_bool (r_y ro) y && Qeq_bool (r_h ro) h &&
               (* every cell starts at the top of its row *)
               forallb (fun c => let 'VO cy _ := c in Qeq_bool cy y) cells &&
               (* the cells ending in this row have the height the model gives them *)
               forallb (fun e => match nth_obs obs (e_row e) (e_idx e) with
                                 | Some (VO oy obh) => Qeq_bool (e_bh e) obh && Qeq_bool (e_y e) oy
                                 | None => false
                                 end) (r_ending ro)) outs obs.

(* specification on the model's (= the implementation's) rows: every cell
   ending in row k reaches the bottom edge of that row *)
Definition covers_rows (outs : list row_out) : bool :=
  forallb (fun ro =>
    forallb (fun e => match nth_error outs (e_row e) with
                      | Some r0 => Qeq_bool (r_y r0 + e_bh e) (r_y ro + r_h ro)
                      | None => false
                      end) (r_ending ro)) outs.

Definition fills_ok (table_w bsx : Q) (widths : list Q) : bool :=
  match widths with
  | [] => true
  | _ => let total := sumQ widths + inject_Z (Z.of_nat (S (length widths))) * bsx in
         Qle_bool (total - slack) table_w && Qle_bool table_w (total + slack)
  end.

(* ---------------------------------------------------------------- grid slots from the structure *)
Definition gkind_of (k : N) : gkind := match k with 1%N => GHeader | 2%N => GFooter | _ => GBody end.
Definition pgroup_of (g : ggroup_in) : pgroup :=
  let 'GG k rows := g in
  mkPG (gkind_of k) (map (map (fun c => let 'GC cs rs := c in cell_of_attrs cs rs)) rows).

(* roles of the ordered groups (build.go:1222-1227: IsHeader / IsFooter) *)
Definition roles_of (gs : list pgroup) : list N :=
  let '(h, bodies, f) := split_groups gs None None [] in
  map (fun _ => 1%N) (opt_list h) ++ map (fun _ => 0%N) bodies ++ map (fun _ => 2%N) (opt_list f).

Definition gcell_eqb (m : pcell) (o : gcell_obs) : bool :=
  let 'GO gx cs rs := o in
  Z.eqb (pc_gridx m) gx && Z.eqb (pc_colspan m) cs && Z.eqb (pc_rowspan m) rs.

Definition grid_eqb (roles : list N) (m : list (list prow)) (obs : list ggroup_obs) : bool :=
  list_eqb2 (fun (rm : N * list prow) (o : ggroup_obs) =>
               let 'GOG role rows := o in
               N.eqb (fst rm) role && list_eqb2 (list_eqb2 gcell_eqb) (snd rm) rows)
            (combine roles m) obs
  && Nat.eqb (length roles) (length m).

(* columns in which at least one cell originates *)
Definition origin_columns (m : list (list prow)) : list Z :=
  nodup Z.eq_dec (flat_map (fun g => flat_map (map pc_gridx) g) m).

Definition acol_of (c : acol_in) : acol := let 'AC mn mx p k h z := c in mkAC mn mx p k h z.

(* hypotheses of C13_auto_layout_fills, on the implementation's preferred widths *)
Definition auto_hyps (tmin tmax spacing : Q) (cols : list acol) : bool :=
  Qle_bool (sumQ (map ac_min cols) + spacing) (tmin + slack) && Qle_bool tmin tmax && existsb ac_cell cols.

(* "no cell has a negative used size", "never smaller than the content's
   minimum" (auto layout: Layout/TableGeomProofs.v cell_content_fits shows it is
   what columns sized for the cell's outer min-content width give) *)
(* (slack: the float32 sum of the columns minus the paddings and borders of a
   cell that exactly fills them may come out at -2^-22) *)
Definition cells_nonneg (cells : list ccell) : bool :=
  forallb (fun c => let 'CCell w _ := c in Qle_bool (0 - slack) w) cells.
Definition cells_hold_content (cells : list ccell) : bool :=
  forallb (fun c => let 'CCell w mc := c in Qle_bool (mc - slack) w) cells.

Inductive model_result :=
| MCells (nonneg hold_content : bool)
| MNonFinite
| MPaged (positions : list (list Q))
| MAuto (cw : list Q) (w : Q) (hyps : bool)
| MGrid (roles : list N) (grid : res (list (list prow))) (width norig : Z)
| MFixed (cw : list Q) (w : Q) | MPanic (site : N) | MFuel
| MHoriz (positions : list Q) (rows : list (res (list (Z * Q * Q * Q))))
| MVert (r : res (list (Q * Q * list row_out)))
| MWidths (ok : bool).

Definition model_out (c : case) : model_result :=
  match c with
  | CCells _ cells => MCells (cells_nonneg cells) (cells_hold_content cells)
  | CNonFinite _ _ _ => MNonFinite
  | CPaged frags =>
      MPaged (map (fun f => let 'Frag x0 bsx widths _ _ := f in
                            nth_default [] (fragments_positions f32 bsx [(x0, widths)]) 0) frags)
  | CAuto width avail tmin tmax spacing cols _ _ _ =>
      let '(cw, w) := auto_table_layout f32 (oq_opt width) avail tmin tmax spacing (map acol_of cols) in
      MAuto cw w (auto_hyps tmin tmax spacing (map acol_of cols))
  | CGrid groups _ _ _ _ _ =>
      let gs := map pgroup_of groups in
      match table_grid gs with
      | Ok m => MGrid (roles_of gs) (Ok m) (grid_width m) (Z.of_nat (length (origin_columns m)))
      | r => MGrid (roles_of gs) r 0 0
      end
  | CFixed w0 cols cells bsx _ _ _ =>
      match fixed_table_layout f32 w0 (map oq_opt cols) (map fcell_of cells) bsx with
      | Ok (cw, w) => MFixed cw w | Panic s => MPanic s | OutOfFuel => MFuel
      end
  | CHoriz x0 bsx widths positions rows =>
      MHoriz (column_positions f32 x0 bsx widths)
             (map (fun r => let 'HRow ins _ := r in row_horizontal f32 widths (column_positions f32 x0 bsx widths) bsx (map hcell_of ins)) rows)
  | CVert y0 bsy groups =>
      MVert (groups_vertical f32 bsy (add f32 y0 bsy) (map (fun g => let 'VGroup _ _ rows _ := g in map vrow_of rows) groups))
  | CWidths _ _ table_w spec has bsx widths => MWidths (auto_contract slack table_w spec bsx has widths)
  | CHorizRtl x0 tw bsx widths positions rows =>
      let ps := column_positions_rtl f32 (add f32 x0 tw) bsx widths in
      MHoriz ps (map (fun r => let 'HRow ins _ := r in row_horizontal_rtl f32 widths ps bsx (map hcell_of ins)) rows)
  end.

Definition check (c : case) : N :=
  match c with
  | CCells auto cells =>
      if negb (cells_nonneg cells) then (if auto then 20%N else 23%N)
      else if auto && negb (cells_hold_content cells) then 21%N
      else 0%N
  | CNonFinite _ _ _ => 22%N
  | CPaged frags => first_nonzero (map frag_check frags)
  | CAuto width avail tmin tmax spacing cols status out_cw out_w =>
      let acs := map acol_of cols in
      let '(cw, w) := auto_table_layout f32 (oq_opt width) avail tmin tmax spacing acs in
      if negb (N.eqb status 0) then 5%N
      else if negb (qlist_eqb cw out_cw && Qeq_bool w out_w) then 16%N
      else if match acs with [] => false | _ => auto_hyps tmin tmax spacing acs end &&
              negb (let total := sumQ out_cw + spacing in
                    Qle_bool (total - slack) out_w && Qle_bool out_w (total + slack)) then 17%N
      else 0%N
  | CGrid groups obs auto ncols claim_width claim_norig =>
      let gs := map pgroup_of groups in
      match table_grid gs with
      | Ok m =>
          if negb (grid_eqb (roles_of gs) m obs) then 13%N
          else if auto && (0 <? grid_width m)%Z && (0 <=? ncols)%Z && negb (ncols =? grid_width m)%Z then 14%N
          else if negb ((claim_width =? grid_width m)%Z && (claim_norig =? Z.of_nat (length (origin_columns m)))%Z) then 15%N
          else 0%N
      | _ => 6%N
      end
  | CFixed w0 cols cells bsx status out_cw out_w =>
      match fixed_table_layout f32 w0 (map oq_opt cols) (map fcell_of cells) bsx, status with
      | Ok (cw, w), 0%N =>
          if negb (qlist_eqb cw out_cw && Qeq_bool w out_w) then 4%N
          else if negb (fills_ok out_w bsx out_cw && Qle_bool (w0 - slack) out_w && forallb (fun x => Qle_bool 0 x) out_cw) then 3%N
          else 0%N
      | Ok _, _ => 5%N
      | _, 0%N => 6%N
      | _, _ => 0%N
      end
  | CHoriz x0 bsx widths positions rows =>
      if negb (qlist_eqb (column_positions f32 x0 bsx widths) positions) then 1%N
      else first_nonzero (map (horiz_row_ok widths positions bsx) rows)
  | CVert y0 bsy groups =>
      match groups_vertical f32 bsy (add f32 y0 bsy) (map (fun g => let 'VGroup _ _ rows _ := g in map vrow_of rows) groups) with
      | Ok m => if negb (list_eqb2 vert_group_ok m groups) then 8%N
                else if forallb (fun g => let '(_, _, outs) := g in covers_rows outs) m then 0%N else 10%N
      | _ => 6%N
      end
  | CWidths fixed norig table_w spec has bsx widths =>
      if auto_contract slack table_w spec bsx has widths then 0%N
      else if N.eqb fixed 0 &&
              forallb (fun w => Qle_bool 0 w) widths &&
              (if has then Qle_bool (spec - slack) table_w else true) &&
              (let total := sumQ widths + inject_Z (Z.of_N norig + 1) * bsx in
               Qle_bool (total - slack) table_w && Qle_bool table_w (total + slack))
           then 9%N       (* spacing counted only for the columns in which a cell originates *)
           else if N.eqb fixed 0 && has &&
                   forallb (fun w => Qle_bool 0 w) widths &&
                   (fills_ok table_w bsx widths ||
                    (let total := sumQ widths + inject_Z (Z.of_N norig + 1) * bsx in
                     Qle_bool (total - slack) table_w && Qle_bool table_w (total + slack)))
                then 12%N   (* well-formed but narrower than the specified width *)
                else 3%N
  | CHorizRtl x0 tw bsx widths positions rows =>
      if negb (qlist_eqb (column_positions_rtl f32 (add f32 x0 tw) bsx widths) positions) then 24%N
      else first_nonzero (map (horiz_row_rtl_ok widths positions bsx) rows)
  end.

Fixpoint mismatches (i : N) (cs : list case) : list (N * N) :=
  match cs with
  | [] => []
  | c :: r => let k := check c in
              if N.eqb k 0 then mismatches (N.succ i) r else (i, k) :: mismatches (N.succ i) r
  end.
