(* Check/C07.v -- correspondence for C07 "parsers of document-supplied text never crash".

   The Go harness (go/cmd/c07) writes one `case` per implementation run.
   * `CTotal component outcome`: a TESTED-ONLY component (validators, expanders,
     descriptor parsers, stylesheet / selector / SVG / data: URL / HTML entry
     points).  The model side is the trivial specification "returns a value or
     an error"; outcome 0 = value, 1 = error value, 2 = panic, 3 = process-fatal
     error, 4 = hang (watchdog).  check = outcome <= 1.
   * the other constructors carry the INPUT of a component that has a Gallina
     model (Css/Urls.v, PageSel.v, HtmlAttr.v, SvgAttr.v, ColorMq.v, W3cDate.v) and what the
     implementation did: `oc` 0 = value, 1 = error / nil / invalid, 2 = panic,
     plus the returned value.  The model is run on the same input; its own
     outcome (Ok vs Panic) and value are compared.
   codes: 0 agree, 1 crash/no-crash disagreement (implementation panics where the
   model returns, or the reverse), 2 skipped, 3 returned values differ,
   4 tested-only component crashed / hung, 5 implementation and model both panic
   (a genuine defect the model reproduces), 6 a table span (colspan / rowspan / span) built from the
   attribute is outside the range proved in C07_table_spans_range, which the table layout indexes with. *)
From Verif Require Export Base.GoSem Base.GoStrings Css.Urls Css.PageSel Css.HtmlAttr Css.SvgAttr Css.ColorMq Css.W3cDate.
From Coq Require Import List ZArith NArith Bool.
Import ListNotations.

Inductive kv := KV (k v : list N).

Inductive case :=
| CTotal (component outcome : N)
| CUnquote (s : list N) (oc : N) (out : list N)
| CUnescape (s : list N) (oc : N) (out : list N)
| CDataUrl (s : list N) (oc : N) (mime : list N) (params : list kv) (b64 : bool) (data : list N)
| CFetchData (s : list N) (oc : N)
| CPageSel (toks : list ptok) (oc : N) (sels : list psel)
| CNth (toks : list ptok) (oc : N) (a b : Z)
| CIntAttr (s : list N) (minimum : Z) (oc : N) (v : Z)
(* the call sites of integerAttribute: a <td colspan=s rowspan=s>, a <col span=s>, an empty <colgroup span=s> built
   by /repo (hook VerifC07TableSpans); the attribute is absent when present = false *)
| CSpans (s : list N) (present : bool) (oc : N) (colspan rowspan span gspan : Z)
| CPar (s : list N) (oc : N) (x y : list N) (none slice : bool)
| CSvgValue (s : list N) (oc : N) (empty : bool) (unit : N)
| CSvgOpacity (s : list N) (oc : N)
| CSvgUrl (s : list N) (oc : N)
| CPainter (s : list N) (oc : N) (kind : N)
| CFontWeight (s : list N) (oc : N) (v : Z)
| CColor (t : ptok) (oc : N) (ctype : N)          (* Color.Type: 0 invalid, 1 currentColor, 2 rgba *)
| CMedia (toks : list ptok) (oc : N) (media : list (list N))
(* parseW3cDate: whether w3CDateRe matched and its eight named groups (year month day hour minute second tzHour
   tzMinute); outcome of parseW3cDate; the instant (Unix seconds) and the zone offset (seconds) of the returned time *)
| CW3cDate (s : list N) (oc : N) (matched : bool) (groups : list (list N)) (unix offset : Z).

(* model observable: (outcome constructor, value digest) -- a uniform shape so
   that replays can print it: oc 0/1/2 as above, 9 = out of fuel *)
Inductive obs :=
| OBytes (oc : N) (b : list N)
| OData (oc : N) (mime : list N) (params : list kv) (b64 : bool) (data : list N)
| OSels (oc : N) (sels : list psel)
| OInts (oc : N) (l : list Z)
| OPar (oc : N) (x y : list N) (none slice : bool)
| OOnly (oc : N)
| OMedia (oc : N) (media : list (list N))
| ODate (oc : N) (matched : bool) (groups : list (list N)) (unix offset : Z).

Definition oc_of {A} (r : res A) : N :=
  match r with Ok _ => 0%N | Panic _ => 2%N | OutOfFuel => 9%N end.

Definition opt_obs {A} (r : res (option A)) (f : A -> obs) (err : obs) (crash : N -> obs) : obs :=
  match r with
  | Ok (Some a) => f a
  | Ok None => err
  | Panic _ => crash 2%N
  | OutOfFuel => crash 9%N
  end.

Definition kvs (m : list (list N * list N)) : list kv := map (fun p => KV (fst p) (snd p)) m.

Definition model_out (c : case) : obs :=
  match c with
  | CTotal _ _ => OOnly 0%N
  | CUnquote s _ _ =>
      match unquote s with Ok t => OBytes 0%N t | r => OBytes (oc_of r) [] end
  | CUnescape s _ _ =>
      opt_obs (unescape_bytes s) (fun t => OBytes 0%N t) (OBytes 1%N []) (fun k => OBytes k [])
  | CDataUrl s _ _ _ _ _ =>
      opt_obs (parse_data_url s)
        (fun d => OData 0%N (du_mime d) (kvs (du_params d)) (du_base64 d) (du_data d))
        (OData 1%N [] [] false []) (fun k => OData k [] [] false [])
  | CFetchData s _ =>
      if is_data_url s then
        opt_obs (fetch_data_url s)
          (fun dp => OOnly (if du_base64 (fst dp) then 7%N else 0%N))   (* 7: value or base64 error *)
          (OOnly 1%N) OOnly
      else OOnly 8%N                                                      (* not a data: URL *)
  | CPageSel toks _ _ =>
      opt_obs (parse_page_selectors toks) (fun l => OSels 0%N l) (OSels 1%N []) (fun k => OSels k [])
  | CNth toks _ _ _ =>
      opt_obs (parse_nth toks) (fun ab => OInts 0%N [fst ab; snd ab]) (OInts 1%N []) (fun k => OInts k [])
  | CIntAttr s m _ _ =>
      match integer_attribute s m with Ok v => OInts 0%N [v] | r => OInts (oc_of r) [] end
  | CSpans s present _ _ _ _ _ =>
      let s := if present then s else [] in
      match cell_colspan s, cell_rowspan s, column_span s, column_group_span s with
      | Ok c, Ok r, Ok sp, Ok g => OInts 0%N [c; r; sp; g]
      | _, _, _, _ => OInts 2%N []
      end
  | CPar s _ _ _ _ _ =>
      match parse_preserve_aspect_ratio s with
      | Ok p => OPar 0%N (par_x p) (par_y p) (par_none p) (par_slice p)
      | r => OPar (oc_of r) [] [] false false
      end
  | CSvgValue s _ _ _ =>
      match parse_value s with
      | Ok None => OInts 0%N [1%Z; 0%Z]
      | Ok (Some (u, _)) => OInts 0%N [0%Z; Z.of_N u]
      | r => OInts (oc_of r) []
      end
  | CSvgOpacity s _ => OOnly (oc_of (parse_opacity s))
  | CSvgUrl s _ => OOnly (oc_of (parse_url_strip s))
  | CPainter s _ _ =>
      match new_painter s with
      | Ok PaintNone => OInts 0%N [0%Z]
      | Ok PaintErr => OInts 0%N [1%Z]
      | Ok _ => OInts 0%N [2%Z]
      | r => OInts (oc_of r) []
      end
  | CFontWeight s _ _ =>
      match parse_font_weight s with Ok v => OInts 0%N [v] | r => OInts (oc_of r) [] end
  | CColor t _ _ =>
      match parse_color t with
      | Ok ColInvalid => OInts 0%N [0%Z]
      | Ok ColKeywordLookup => OInts 0%N [1%Z]       (* any type: depends on the keyword table *)
      | Ok ColRGBA => OInts 0%N [2%Z]
      | r => OInts (oc_of r) []
      end
  | CMedia toks _ _ =>
      opt_obs (parse_media_query toks) (fun m => OMedia 0%N m) (OMedia 1%N []) (fun k => OMedia k [])
  | CW3cDate s _ _ _ _ _ =>
      let '(matched, gs) :=
        match match_w3c false s with
        | Some g => (true, [g_year g; g_month g; g_day g; g_hour g; g_minute g; g_second g; g_tzh g; g_tzm g])
        | None => (false, [[]; []; []; []; []; []; []; []])
        end in
      opt_obs (parse_w3c_date false s) (fun t => ODate 0%N matched gs (unix_seconds t) (d_offset t))
        (ODate 1%N matched gs 0%Z 0%Z) (fun k => ODate k matched gs 0%Z 0%Z)
  end.

(* ---- equalities *)
Fixpoint zlist_eqb (a b : list Z) : bool :=
  match a, b with
  | [], [] => true
  | x :: a', y :: b' => Z.eqb x y && zlist_eqb a' b'
  | _, _ => false
  end.
Definition psel_eqb (p q : psel) : bool :=
  list_eqb (ps_side p) (ps_side q) && list_eqb (ps_name p) (ps_name q) &&
  Z.eqb (ps_a p) (ps_a q) && Z.eqb (ps_b p) (ps_b q) &&
  Z.eqb (ps_s0 p) (ps_s0 q) && Z.eqb (ps_s1 p) (ps_s1 q) && Z.eqb (ps_s2 p) (ps_s2 q) &&
  Bool.eqb (ps_blank p) (ps_blank q) && Bool.eqb (ps_first p) (ps_first q).
Fixpoint psels_eqb (a b : list psel) : bool :=
  match a, b with
  | [], [] => true
  | x :: a', y :: b' => psel_eqb x y && psels_eqb a' b'
  | _, _ => false
  end.
Fixpoint strs_eqb (a b : list (list N)) : bool :=
  match a, b with
  | [], [] => true
  | x :: a', y :: b' => list_eqb x y && strs_eqb a' b'
  | _, _ => false
  end.
Definition kv_in (e : kv) (l : list kv) : bool :=
  let 'KV k v := e in existsb (fun e' => let 'KV k' v' := e' in list_eqb k k' && list_eqb v v') l.
(* the Go map and the model's association list hold the same bindings *)
Definition kvs_same (a b : list kv) : bool :=
  Nat.eqb (length a) (length b) && forallb (fun e => kv_in e b) a && forallb (fun e => kv_in e a) b.

(* crash / no-crash agreement of the outcome constructors: 2 = panic on both sides *)
Definition crash_agree (m i : N) : bool := Bool.eqb (N.eqb m 2) (N.eqb i 2).

Definition verdict (m_oc i_oc : N) (same_value : bool) : N :=
  if N.eqb m_oc 9 then 1%N
  else if negb (crash_agree m_oc i_oc) then 1%N
  else if N.eqb m_oc 2 then 5%N                    (* both panic: a modelled, genuine defect *)
  else if negb (N.eqb m_oc i_oc) then 3%N
  else if same_value then 0%N else 3%N.

Definition spans_in_range (c r sp g : Z) : bool :=
  (1 <=? c)%Z && (c <=? 1000)%Z && (0 <=? r)%Z && (r <=? 65534)%Z &&
  (1 <=? sp)%Z && (sp <=? 1000)%Z && (1 <=? g)%Z && (g <=? 1000)%Z.

Definition check (c : case) : N :=
  match c, model_out c with
  | CTotal _ o, _ => if (o <=? 1)%N then 0%N else 4%N
  | CUnquote _ oc out, OBytes m t => verdict m oc (N.eqb oc 2 || list_eqb t out)
  | CUnescape _ oc out, OBytes m t => verdict m oc (negb (N.eqb oc 0) || list_eqb t out)
  | CDataUrl _ oc mime params b64 data, OData m mime' params' b64' data' =>
      verdict m oc (negb (N.eqb oc 0) ||
                    (list_eqb mime mime' && kvs_same params params' && Bool.eqb b64 b64' && list_eqb data data'))
  | CFetchData _ oc, OOnly m =>
      if N.eqb m 8 then 2%N
      else if N.eqb m 7 then (if (oc <=? 1)%N then 0%N else 1%N)
      else verdict m oc true
  | CPageSel _ oc sels, OSels m sels' => verdict m oc (negb (N.eqb oc 0) || psels_eqb sels sels')
  | CNth _ oc a b, OInts m l => verdict m oc (negb (N.eqb oc 0) || zlist_eqb l [a; b])
  | CIntAttr _ _ oc v, OInts m l => verdict m oc (negb (N.eqb oc 0) || zlist_eqb l [v])
  | CSpans _ _ oc c r sp g, OInts m l =>
      (* code 6: a span outside the range the table code indexes with (C07_table_spans_range): the crash is downstream *)
      if N.eqb oc 0 && N.eqb m 0 && negb (spans_in_range c r sp g) then 6%N
      else verdict m oc (negb (N.eqb oc 0) || zlist_eqb l [c; r; sp; g])
  | CPar s oc x y none slice, OPar m x' y' none' slice' =>
      verdict m oc (negb (N.eqb oc 0) ||
                    (Bool.eqb none none' && Bool.eqb slice slice' &&
                     (negb (is_ascii s) || (list_eqb x x' && list_eqb y y'))))
  | CSvgValue _ oc empty unit, OInts m l =>
      verdict m oc (negb (N.eqb oc 0) ||
                    zlist_eqb l (if empty then [1%Z; 0%Z] else [0%Z; Z.of_N unit]))
  | CSvgOpacity _ oc, OOnly m => verdict m (if N.eqb oc 2 then 2%N else 0%N) true
  | CSvgUrl _ oc, OOnly m => verdict m (if N.eqb oc 2 then 2%N else 0%N) true
  | CPainter _ oc kind, OInts m l => verdict m oc (negb (N.eqb oc 0) || zlist_eqb l [Z.of_N kind])
  | CFontWeight _ oc v, OInts m l => verdict m oc (negb (N.eqb oc 0) || zlist_eqb l [v])
  | CColor t oc ctype, OInts m l =>
      verdict m oc (negb (N.eqb oc 0) ||
                    match t with
                    | PIdent _ => true
                    | _ => zlist_eqb l [Z.of_N ctype]
                    end)
  | CMedia _ oc media, OMedia m media' => verdict m oc (negb (N.eqb oc 0) || strs_eqb media media')
  | CW3cDate _ oc matched groups unix offset, ODate m matched' groups' unix' offset' =>
      verdict m oc (Bool.eqb matched matched' && strs_eqb groups groups' &&
                    (negb (N.eqb oc 0) || (Z.eqb unix unix' && Z.eqb offset offset')))
  | _, _ => 1%N
  end.

Fixpoint mismatches (i : N) (cs : list case) : list (N * N) :=
  match cs with
  | [] => []
  | c :: r => let k := check c in
              if N.eqb k 0 then mismatches (N.succ i) r else (i, k) :: mismatches (N.succ i) r
  end.
