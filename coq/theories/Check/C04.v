(* Check/C04.v -- correspondence between /repo's style objects
   (html/tree ComputedStyle / AnonymousStyle) and the model Css/Defaulting.v,
   evaluated with the float32 instance.

   The Go harness (go/cmd/c04) builds real documents, dumps for every style
   object (element, pseudo-element, page context, margin box, anonymous box)
   the cascaded declarations it was built from, then performs a random access
   history of constructions (K) and Get calls (G) on the real objects and
   records every returned value.  `check` replays the same history on the
   model's state machine and compares every returned value.

   The CTables case carries the *runtime* content of the tables that
   Generated/PropTables.v holds as translated from the source text.

   codes: 0 agree
          1 a Get returned a different value than the model
          3 the implementation panicked where the model returns a value
          4 the implementation returned a value where the model panics
          5 a table entry differs from the generated (source-translated) table
          6 model out of fuel (infinite recursion)
          7 malformed case (tree not well formed)
          8 the document could not be built (construction panicked)
         10 the history agrees but the document is outside the typing hypotheses of
            C04_get_total (wt_tree: a validator postcondition does not hold)
         11 a cascaded declaration -- the input `t` every theorem holds constant, shared by all
            the elements a rule matches -- was modified while values were computed
         12 the recorded font metrics of a node are not those of a font of the harness
            (DefaultingSpec.known_font_metrics): the oracle input itself is off
         13 pr.TextRatioCache: a Get after a sequence of Sets returned something else than the
            model's two maps (rc_get / rc_set)
         14 vertical-align: <percentage> (a recorded result, the strut is outside the model): the
            recorded computed value is not that percentage of the element's own line height
            (Defaulting.valign_percent of the model's computed font-size and line-height;
            elements whose line-height is `normal` are skipped: the font decides)
          9 the implementation panicked and so does the model (C04_get_total says the
            model does not: the case is outside its hypotheses, e.g. ill-typed) *)
From Verif Require Export Css.Defaulting Css.DefaultingCopy Css.DefaultingSpec Css.DefaultingTyping.
From Coq Require Import QArith ZArith NArith List String Bool.
Import ListNotations.
Open Scope N_scope.

Inductive gres := ROk (v : value) | RPanic.
Inductive hop :=
| G (n p : N) (r : gres)        (* style(n).Get(p) returned r *)
| K (n : N) (ok : bool)         (* the style object of node n was constructed *)
| C (src dst : N) (ok : bool).  (* style(dst) := style(src).Copy(); node dst is a duplicate of node src *)

(* one entry of the runtime tables *)
Inductive tab :=
| TProp (p : N) (name : string) (inh inc : bool) (computer : string) (init : value)
| TUnit (u : N) (px : Q)
| TFsk (i : N) (s : string) (v : Q)
| TBw (s : string) (v : Q)
| TFw (bolder : bool) (k v : Z)
| TSizes (nb n_inh n_inc n_comp n_init n_units n_fsk n_bw n_bolder n_lighter : N).

(* a cascaded declaration read again after the history differs from the one the tree was
   built from *)
Inductive dchange := DChg (n p : N) (before after : casc).

(* operations on a pr.TextRatioCache: Set(key, isCh, f), Get(key, isCh) = (f, ok) *)
Inductive rop :=
| RSet (key : string) (ch : bool) (f : Q)
| RGet (key : string) (ch : bool) (ok : bool) (f : Q).    (* f is 0 when ok is false *)

Fixpoint run_rops (c : rcache) (ops : list rop) : bool :=
  match ops with
  | [] => true
  | RSet k b f :: r => run_rops (rc_set c k b f) r
  | RGet k b ok f :: r =>
      match rc_get c k b, ok with
      | Some a, true => Qeq_bool a f && run_rops c r
      | None, false => run_rops c r
      | _, _ => false
      end
  end.

Fixpoint first_bad_rop (c : rcache) (ops : list rop) (i : N) : option (N * option Q) :=
  match ops with
  | [] => None
  | RSet k b f :: r => first_bad_rop (rc_set c k b f) r (N.succ i)
  | RGet k b ok f :: r =>
      let same := match rc_get c k b, ok with
                  | Some a, true => Qeq_bool a f | None, false => true | _, _ => false end in
      if same then first_bad_rop c r (N.succ i) else Some (i, rc_get c k b)
  end.

Inductive case :=
| CRatio (ops : list rop)
| CDoc (t : tree) (ops : list hop) (changed : list dchange)
| CBuildPanic
| CTables (l : list tab).

Fixpoint run_hist (t : tree) (st : styles) (ops : list hop) : N :=
  match ops with
  | [] => 0
  | G n p r :: rest =>
      let '(st', m) := Defaulting.get f32 true t st n p in
      match m, r with
      | Ok v, ROk w => if value_eqb v w then run_hist t st' rest else 1
      | Panic _, RPanic => 9
      | Ok _, RPanic => 3
      | Panic _, ROk _ => 4
      | OutOfFuel, _ => 6
      end
  | K n ok :: rest =>
      let '(st', m) := construct f32 true t st n in
      match m, ok with
      | Ok _, true => run_hist t st' rest
      | Panic _, false => 9
      | Ok _, false => 3
      | Panic _, true => 4
      | OutOfFuel, _ => 6
      end
  | C src dst ok :: rest =>
      let '(st', m) := copy_style f32 true t st src dst in
      match m, ok with
      | Ok _, true => run_hist t st' rest
      | Panic _, false => 9
      | Ok _, false => 3
      | Panic _, true => 4
      | OutOfFuel, _ => 6
      end
  end.

(* a copy is built from the same inputs as its source: the two nodes are duplicates *)
Definition presult_eqb (a b : presult) : bool :=
  match a, b with
  | PErr, PErr | PInherit, PInherit | PInitial, PInitial => true
  | PVal v, PVal w => value_eqb v w
  | _, _ => false
  end.
Definition casc_eqb (a b : casc) : bool :=
  match a, b with
  | CInherit, CInherit | CInitial, CInitial => true
  | CExplicit v, CExplicit w => value_eqb v w
  | CPending x, CPending y => presult_eqb x y
  | _, _ => false
  end.
Fixpoint list_eqb {A} (f : A -> A -> bool) (l1 l2 : list A) : bool :=
  match l1, l2 with
  | [], [] => true
  | a :: r1, b :: r2 => f a b && list_eqb f r1 r2
  | _, _ => false
  end.
Definition node_eqb (a b : node) : bool :=
  match n_parent a, n_parent b with Some i, Some j => i =? j | None, None => true | _, _ => false end
  && match n_kind a, n_kind b with KElem, KElem | KAnon, KAnon => true | _, _ => false end
  && list_eqb (fun x y => let 'D p c := x in let 'D q d := y in (p =? q) && casc_eqb c d) (n_decls a) (n_decls b)
  && list_eqb (fun x y => let 'Orc p v := x in let 'Orc q w := y in (p =? q) && value_eqb v w) (n_oracle a) (n_oracle b)
  && match n_metrics a, n_metrics b with
     | Some m, Some m' => Qeq_bool (m_ex m) (m_ex m') && Qeq_bool (m_ch m) (m_ch m')
     | None, None => true | _, _ => false end.
Definition copies_ok (t : tree) (ops : list hop) : bool :=
  forallb (fun o => match o with
                    | C src dst _ => match node_at t src, node_at t dst with
                                     | Some a, Some b => node_eqb a b && negb (src =? dst)
                                     | _, _ => false end
                    | _ => true end) ops.

Definition len {A} (l : list A) : N := N.of_nat (List.length l).
Definition nth_fsk (i : N) : option (string * (Q * Q)) := nth_error font_size_keywords (N.to_nat i).

Definition check_tab (c : tab) : bool :=
  match c with
  | TProp p name inh inc comp init =>
      String.eqb (prop_name p) name && Bool.eqb (inherited p) inh
      && Bool.eqb (initial_not_computed p) inc
      && String.eqb (match assoc_N computer_list p with Some s => s | None => ""%string end) comp
      && match initial p with Some v => value_eqb v init | None => false end
  | TUnit u px => Qeq_bool (px_per f32 u) px
  | TFsk i s v =>
      match nth_fsk i with
      | Some (s', ab) => String.eqb s s' && Qeq_bool (fs_keyword_value f32 ab) v
      | None => false
      end
  | TBw s v => match assoc_S border_width_keywords s with
               | Some q => Qeq_bool (cst f32 q) v | None => false end
  | TFw b k v => Z.eqb (fw_table (if b then font_weight_bolder else font_weight_lighter) k) v
  | TSizes nb ni nc ncomp ninit nu nf nbw nbo nli =>
      (nb =? nb_properties) && (ni =? len inherited_list) && (nc =? len initial_not_computed_list)
      && (ncomp =? len computer_list) && (ninit =? len initial_list) && (nu =? len lengths_to_pixels)
      && (nf =? len font_size_keywords) && (nbw =? len border_width_keywords)
      && (nbo =? len font_weight_bolder) && (nli =? len font_weight_lighter)
  end.

(* recorded metrics against the documented metrics of the harness's fonts, as float32 *)
Definition metrics_known_node (nd : node) : bool :=
  match n_metrics nd with
  | None => true
  | Some m => existsb (fun ab => Qeq_bool (m_ex m) (cst f32 (fst ab)) && Qeq_bool (m_ch m) (cst f32 (snd ab)))
                      known_font_metrics
  end.
Definition metrics_known (t : tree) : bool := forallb metrics_known_node t.

(* audit of the recorded results of vertical-align percentages *)
Definition valign_pct_decl (nd : node) : option Q :=
  match lookup_decl nd PVerticalAlign with
  | Some (CExplicit (VDim s q u)) | Some (CPending (PVal (VDim s q u))) =>
      if String.eqb s "" && (u =? U_Perc) then Some q else None
  | _ => None
  end.

Definition valign_expected (t : tree) (n : N) (q : Q) : option Q :=
  match computed f32 true t n PFontSize, computed f32 true t n PLineHeight with
  | Ok (VDim _ fs _), Ok lh => valign_percent f32 q fs lh
  | _, _ => None
  end.

Definition valign_audit_node (t : tree) (n : N) (nd : node) : bool :=
  match n_kind nd, valign_pct_decl nd, lookup_oracle nd PVerticalAlign with
  | KElem, Some q, Some (VDim _ r _) =>
      match valign_expected t n q with Some x => Qeq_bool x r | None => true end
  | _, _, _ => true
  end.

Definition indexed (t : tree) : list (N * node) := combine (map N.of_nat (seq 0 (List.length t))) t.
Definition valign_audit (t : tree) : bool :=
  forallb (fun ind => valign_audit_node t (fst ind) (snd ind)) (indexed t).

Definition check (c : case) : N :=
  match c with
  | CDoc t ops chg =>
      if wf_tree t && copies_ok t ops then
        match chg with
        | _ :: _ => 11
        | [] =>
          let k := run_hist t empty_styles ops in
          if negb (k =? 0) then k
          else if negb (valign_audit t) then 14
          else if negb (metrics_known t) then 12
          else if negb (wt_tree t) then 10 else 0
        end
      else 7
  | CBuildPanic => 8
  | CTables l => if forallb check_tab l then 0 else 5
  | CRatio ops => if run_rops rc_empty ops then 0 else 13
  end.

(* model observable, for replays: the first operation of the history on which the
   implementation and the model differ, with the model's result *)
Inductive mout :=
| MAgree
| MBad (i : N) (o : hop) (m : res (option value))
| MTab (p : N) (name : string) (inh inc : bool) (computer : string) (init : option value)
| MTabBad (runtime : tab) (generated : mout)
| MSizes (l : list N)
| MChanged (l : list dchange)                 (* code 11 *)
| MMetrics (n : N) (m : option metrics)       (* code 12: first node with unknown metrics *)
| MVAlign (n : N) (percent : Q) (font_size line_height : res value) (model : option Q) (recorded : option value)
                                              (* code 14: first node whose vertical-align % is off *)
| MRatio (i : N) (model : option Q)           (* code 13: index of the Get, what the model's cache holds *)
| MQ (q : Q) | MZ (z : Z) | MNone.

Fixpoint first_bad (t : tree) (st : styles) (ops : list hop) (i : N) : mout :=
  match ops with
  | [] => MAgree
  | G n p r :: rest =>
      let '(st', m) := Defaulting.get f32 true t st n p in
      match m, r with
      | Ok v, ROk w => if value_eqb v w then first_bad t st' rest (N.succ i) else MBad i (G n p r) (res_map Some m)
      | Panic _, RPanic => first_bad t st' rest (N.succ i)
      | _, _ => MBad i (G n p r) (res_map Some m)
      end
  | K n ok :: rest =>
      let '(st', m) := construct f32 true t st n in
      match m, ok with
      | Ok _, true | Panic _, false => first_bad t st' rest (N.succ i)
      | _, _ => MBad i (K n ok) (res_map (fun _ => None) m)
      end
  | C src dst ok :: rest =>
      let '(st', m) := copy_style f32 true t st src dst in
      match m, ok with
      | Ok _, true | Panic _, false => first_bad t st' rest (N.succ i)
      | _, _ => MBad i (C src dst ok) (res_map (fun _ => None) m)
      end
  end.

Definition tab_out (c : tab) : mout :=
  match c with
  | TProp p _ _ _ _ _ =>
      MTab p (prop_name p) (inherited p) (initial_not_computed p)
           (match assoc_N computer_list p with Some s => s | None => ""%string end) (initial p)
  | TUnit u _ => MQ (px_per f32 u)
  | TFsk i _ _ => match nth_fsk i with Some (_, ab) => MQ (fs_keyword_value f32 ab) | None => MNone end
  | TBw s _ => match assoc_S border_width_keywords s with Some q => MQ (cst f32 q) | None => MNone end
  | TFw b k _ => MZ (fw_table (if b then font_weight_bolder else font_weight_lighter) k)
  | TSizes _ _ _ _ _ _ _ _ _ _ =>
      MSizes [nb_properties; len inherited_list; len initial_not_computed_list; len computer_list; len initial_list;
              len lengths_to_pixels; len font_size_keywords; len border_width_keywords; len font_weight_bolder; len font_weight_lighter]
  end.

(* for a table case: the generated (source) view of the first entry that differs *)
Definition model_out (c : case) : mout :=
  match c with
  | CDoc t ops chg =>
      match chg with
      | _ :: _ => MChanged chg
      | [] =>
        match first_bad t empty_styles ops 0 with
        | MAgree =>
            match find (fun ind => negb (valign_audit_node t (fst ind) (snd ind))) (indexed t) with
            | Some (i, nd) =>
                let q := match valign_pct_decl nd with Some q => q | None => 0%Q end in
                MVAlign i q (computed f32 true t i PFontSize) (computed f32 true t i PLineHeight)
                        (valign_expected t i q) (lookup_oracle nd PVerticalAlign)
            | None =>
            match find (fun ind => negb (metrics_known_node (snd ind))) (combine (map N.of_nat (seq 0 (List.length t))) t) with
            | Some (i, nd) => MMetrics i (n_metrics nd)
            | None => MAgree
            end
            end
        | x => x
        end
      end
  | CBuildPanic => MNone
  | CTables l => match find (fun e => negb (check_tab e)) l with
                 | Some e => MTabBad e (tab_out e)
                 | None => MAgree
                 end
  | CRatio ops => match first_bad_rop rc_empty ops 0 with Some (i, m) => MRatio i m | None => MAgree end
  end.

(* ------------------------------------------------------------------ table audit

   The tables of Generated/PropTables.v (translated from the source on every run)
   against the tables transcribed from the CSS specifications (Css/DefaultingSpec.v).
   The theorems C04_property_tables_spec / C04_unit_table_correct / C04_font_tables_spec
   state that there is no difference; when they no longer prove, this list names the
   offending entries (evaluated by checks/C04.py). *)
Inductive tdiff :=
| DInherited (name : string) (source css : bool)
| DContextInitial (name : string) (source css : bool)
| DNoInitialValue (name : string)
| DUnit (u : N) (source css : option Q)
| DBolder (w source css : Z)
| DLighter (w source css : Z)
| DFontSizeNames (source css : list string)
| DFontSizeRatio (name : string) (a b : Q)
| DBorderKeyword (name : string) (source : Q)
| DBorderStyleNotBeforeWidth (width_prop at_pred : string).

Definition all_props : list N := map N.of_nat (seq 1 (N.to_nat nb_properties - 1)).
Definition units_u8 : list N := map N.of_nat (seq 0 256).
Definition Qeq_opt' (a b : option Q) : bool :=
  match a, b with Some x, Some y => Qeq_bool x y | None, None => true | _, _ => false end.
Definition style_name' (w : string) : string :=
  (String.substring 0 (String.length w - 5) w ++ "style")%string.

Definition table_diffs : list tdiff :=
  flat_map (fun p =>
    (if Bool.eqb (inherited p) (mem_S (prop_name p) css_inherited_names) then []
     else [DInherited (prop_name p) (inherited p) (mem_S (prop_name p) css_inherited_names)]) ++
    (if Bool.eqb (initial_not_computed p) (mem_S (prop_name p) css_context_dependent_initial) then []
     else [DContextInitial (prop_name p) (initial_not_computed p) (mem_S (prop_name p) css_context_dependent_initial)]) ++
    (match initial p with Some _ => [] | None => [DNoInitialValue (prop_name p)] end) ++
    (match computer_of p with
     | KBorderWidth => if String.eqb (prop_name (N.pred p)) (style_name' (prop_name p)) then []
                       else [DBorderStyleNotBeforeWidth (prop_name p) (prop_name (N.pred p))]
     | _ => [] end)) all_props ++
  flat_map (fun u => if Qeq_opt' (assoc_N lengths_to_pixels u) (css_px_per u) then []
                     else [DUnit u (assoc_N lengths_to_pixels u) (css_px_per u)]) units_u8 ++
  flat_map (fun w =>
    (if Z.eqb (fw_table font_weight_bolder w) (css_bolder w) then [] else [DBolder w (fw_table font_weight_bolder w) (css_bolder w)]) ++
    (if Z.eqb (fw_table font_weight_lighter w) (css_lighter w) then [] else [DLighter w (fw_table font_weight_lighter w) (css_lighter w)]))
    css_weights ++
  (if list_eq_dec string_dec (map fst font_size_keywords) css_size_names then []
   else [DFontSizeNames (map fst font_size_keywords) css_size_names]) ++
  flat_map (fun e => match css_font_size_ratio (fst e) with
                     | Some r => if Qeq_bool r (fst (snd e) / snd (snd e)) then [] else [DFontSizeRatio (fst e) (fst (snd e)) (snd (snd e))]
                     | None => [DFontSizeRatio (fst e) (fst (snd e)) (snd (snd e))] end) font_size_keywords ++
  flat_map (fun e => if Qeq_opt' (css_border_keyword (fst e)) (Some (snd e)) then [] else [DBorderKeyword (fst e) (snd e)])
    border_width_keywords.

Fixpoint mismatches (i : N) (cs : list case) : list (N * N) :=
  match cs with
  | [] => []
  | c :: r => let k := check c in
              if N.eqb k 0 then mismatches (N.succ i) r else (i, k) :: mismatches (N.succ i) r
  end.
