(* Check/C04.v -- correspondence between /repo's style objects
   (html/tree ComputedStyle / AnonymousStyle) and the model Css/Defaulting.v,
   evaluated with the float32 instance.

   The Go harness (go/cmd/c04) builds real documents, dumps for every style
   object (element, pseudo-element, page context, margin box, anonymous box)
   the cascaded declarations it was built from, then performs a random access
   history of constructions (K) and Get calls (G) on the real objects and
   records every returned value.  `check` replays the same history on the
   model's state machine and compares every returned value.

   CTab* cases carry the *runtime* content of the tables that
   Generated/PropTables.v holds as translated from the source text.

   codes: 0 agree
          1 a Get returned a different value than the model
          3 the implementation panicked where the model returns a value
          4 the implementation returned a value where the model panics
          5 a table entry differs from the generated (source-translated) table
          6 model out of fuel (infinite recursion)
          7 malformed case (tree not well formed)
          8 the document could not be built (construction panicked)
          9 the implementation panicked and so does the model (C04_get_total says the
            model does not: the case is outside its hypotheses, e.g. ill-typed) *)
From Verif Require Export Css.Defaulting.
From Coq Require Import QArith ZArith NArith List String Bool.
Import ListNotations.
Open Scope N_scope.

Inductive gres := ROk (v : value) | RPanic.
Inductive hop :=
| G (n p : N) (r : gres)        (* style(n).Get(p) returned r *)
| K (n : N) (ok : bool).        (* the style object of node n was constructed *)

Inductive case :=
| CDoc (t : tree) (ops : list hop)
| CBuildPanic
| CTabProp (p : N) (name : string) (inh inc : bool) (computer : string) (init : value)
| CTabUnit (u : N) (px : Q)
| CTabFsk (i : N) (s : string) (v : Q)
| CTabBw (s : string) (v : Q)
| CTabFw (bolder : bool) (k v : Z)
| CTabSizes (nb n_inh n_inc n_comp n_init n_units n_fsk n_bw n_bolder n_lighter : N).

Fixpoint run_hist (t : tree) (st : styles) (ops : list hop) : N :=
  match ops with
  | [] => 0
  | G n p r :: rest =>
      let '(st', m) := Defaulting.get f32 true t st n p in
      match m, r with
      | Ok v, ROk w => if value_eqb v w then run_hist t st' rest else 1
      | Panic _, RPanic => 9
      | Ok _, RPanic => 3
      | Panic _, ROk _ => 4
      | OutOfFuel, _ => 6
      end
  | K n ok :: rest =>
      let '(st', m) := construct f32 true t st n in
      match m, ok with
      | Ok _, true => run_hist t st' rest
      | Panic _, false => 9
      | Ok _, false => 3
      | Panic _, true => 4
      | OutOfFuel, _ => 6
      end
  end.

Definition len {A} (l : list A) : N := N.of_nat (List.length l).
Definition nth_fsk (i : N) : option (string * (Q * Q)) := nth_error font_size_keywords (N.to_nat i).

Definition check (c : case) : N :=
  match c with
  | CDoc t ops => if wf_tree t then run_hist t empty_styles ops else 7
  | CBuildPanic => 8
  | CTabProp p name inh inc comp init =>
      if String.eqb (prop_name p) name && Bool.eqb (inherited p) inh
         && Bool.eqb (initial_not_computed p) inc
         && String.eqb (match assoc_N computer_list p with Some s => s | None => ""%string end) comp
         && match initial p with Some v => value_eqb v init | None => false end
      then 0 else 5
  | CTabUnit u px => if Qeq_bool (px_per f32 u) px then 0 else 5
  | CTabFsk i s v =>
      match nth_fsk i with
      | Some (s', ab) => if String.eqb s s' && Qeq_bool (fs_keyword_value f32 ab) v then 0 else 5
      | None => 5
      end
  | CTabBw s v => match assoc_S border_width_keywords s with
                  | Some q => if Qeq_bool (cst f32 q) v then 0 else 5 | None => 5 end
  | CTabFw b k v => if Z.eqb (fw_table (if b then font_weight_bolder else font_weight_lighter) k) v then 0 else 5
  | CTabSizes nb ni nc ncomp ninit nu nf nbw nbo nli =>
      if (nb =? nb_properties) && (ni =? len inherited_list) && (nc =? len initial_not_computed_list)
         && (ncomp =? len computer_list) && (ninit =? len initial_list) && (nu =? len lengths_to_pixels)
         && (nf =? len font_size_keywords) && (nbw =? len border_width_keywords)
         && (nbo =? len font_weight_bolder) && (nli =? len font_weight_lighter)
      then 0 else 5
  end.

(* model observable, for replays: the first operation of the history on which the
   implementation and the model differ, with the model's result *)
Inductive mout :=
| MAgree
| MBad (i : N) (o : hop) (m : res (option value))
| MTab (p : N) (name : string) (inh inc : bool) (computer : string) (init : option value)
| MQ (q : Q) | MZ (z : Z) | MNone.

Fixpoint first_bad (t : tree) (st : styles) (ops : list hop) (i : N) : mout :=
  match ops with
  | [] => MAgree
  | G n p r :: rest =>
      let '(st', m) := Defaulting.get f32 true t st n p in
      match m, r with
      | Ok v, ROk w => if value_eqb v w then first_bad t st' rest (N.succ i) else MBad i (G n p r) (res_map Some m)
      | Panic _, RPanic => first_bad t st' rest (N.succ i)
      | _, _ => MBad i (G n p r) (res_map Some m)
      end
  | K n ok :: rest =>
      let '(st', m) := construct f32 true t st n in
      match m, ok with
      | Ok _, true | Panic _, false => first_bad t st' rest (N.succ i)
      | _, _ => MBad i (K n ok) (res_map (fun _ => None) m)
      end
  end.

Definition model_out (c : case) : mout :=
  match c with
  | CDoc t ops => first_bad t empty_styles ops 0
  | CBuildPanic => MNone
  | CTabProp p _ _ _ _ _ =>
      MTab p (prop_name p) (inherited p) (initial_not_computed p)
           (match assoc_N computer_list p with Some s => s | None => ""%string end) (initial p)
  | CTabUnit u _ => MQ (px_per f32 u)
  | CTabFsk i _ _ => match nth_fsk i with Some (_, ab) => MQ (fs_keyword_value f32 ab) | None => MNone end
  | CTabBw s _ => match assoc_S border_width_keywords s with Some q => MQ (cst f32 q) | None => MNone end
  | CTabFw b k _ => MZ (fw_table (if b then font_weight_bolder else font_weight_lighter) k)
  | CTabSizes _ _ _ _ _ _ _ _ _ _ => MNone
  end.

Fixpoint mismatches (i : N) (cs : list case) : list (N * N) :=
  match cs with
  | [] => []
  | c :: r => let k := check c in
              if N.eqb k 0 then mismatches (N.succ i) r else (i, k) :: mismatches (N.succ i) r
  end.
