(* Check/C20.v -- correspondence for property C20.

   One `case` per implementation run of the Go harness (go/cmd/c20):
     skip   tokenizer mode of the source (comments dropped or kept)
     src    the CSS source text (code points)
     ts     parser.Tokenize(src, skip), positions erased (error free)
     goser  parser.Serialize(ts) (code points)
     ok     the Go-side verdict: norm (Tokenize(goser, true)) = norm ts
   `check`:
     1  the implementation's own round trip failed (a failing input by itself);
     5  the specification tokenizer (Css/RetokSpec.v) and parser.Tokenize
        disagree on the source text;
     3  re-tokenising the implementation's serialization with the specification
        tokenizer does not give back the tokens (up to comments / positions);
     6  the serializer model panics or is not error free where the
        implementation returned;
     7  the token list /repo's Tokenize returned is outside `wf_tokens`, the
        domain of theorem C20_roundtrip (the specification tokenizer never
        leaves it: C20_tokenize_wf);
     4  (not a failure, counted as skipped) the model's bytes differ from the
        implementation's but both round-trip: a harmless rewrite;
     0  agreement: model bytes = implementation bytes, and both tokenizers
        agree on source and serialization.

   Compound cases (`CCP`): a rule or declaration returned by /repo's parsers
   (position-free), the bytes of its own serializeTo, and the Go-side verdict
   "the bytes parse back to one compound with the same observables":
     8  the implementation's own compound round trip failed;
     9  the model of the compound serializers (Css/SerCompound.v) returns other
        bytes than the implementation (or panics);
     10 reading the implementation's bytes back with the specification
        (RetokSpec.tokenize + SerCompound.read_back) does not give the compound
        (kind, at-keyword / name, prelude / value, block present or absent and
        its contents, !important), up to comments / positions;
     7  a token list of the compound is outside wf_tokens. *)
From Verif Require Export Css.Ser Css.RetokSpec Css.SerWf Css.SerCompound.
From Coq Require Import List NArith Bool.
Import ListNotations.

Inductive case :=
| CRT (skip : bool) (src : list N) (ts : list token) (goser : list N) (ok : bool)
| CCP (c : compound) (goser : list N) (ok : bool).

(* structural equality, positions ignored *)
Fixpoint tok_eqb (a b : token) : bool :=
  let fix list_eqb (l1 l2 : list token) : bool :=
    match l1, l2 with
    | [], [] => true
    | x :: r1, y :: r2 => tok_eqb x y && list_eqb r1 r2
    | _, _ => false
    end in
  match a, b with
  | TLiteral _ v, TLiteral _ w | TComment _ v, TComment _ w | TWhitespace _ v, TWhitespace _ w
  | TIdent _ v, TIdent _ w | TAtKeyword _ v, TAtKeyword _ w => str_eqb v w
  | TParseError _ k, TParseError _ l => N.eqb k l
  | THash _ v f, THash _ w g | TString _ v f, TString _ w g | TURL _ v f, TURL _ w g
  | TNumber _ v f, TNumber _ w g | TPercentage _ v f, TPercentage _ w g =>
      str_eqb v w && Bool.eqb f g
  | TUnicodeRange _ s e, TUnicodeRange _ s' e' => N.eqb s s' && N.eqb e e'
  | TDimension _ v f u, TDimension _ w g u' => str_eqb v w && Bool.eqb f g && str_eqb u u'
  | TParens _ l, TParens _ l' | TSquare _ l, TSquare _ l' | TCurly _ l, TCurly _ l' => list_eqb l l'
  | TFunction _ n l, TFunction _ n' l' => str_eqb n n' && list_eqb l l'
  | _, _ => false
  end.

Fixpoint toks_eqb (l1 l2 : list token) : bool :=
  match l1, l2 with
  | [], [] => true
  | x :: r1, y :: r2 => tok_eqb x y && toks_eqb r1 r2
  | _, _ => false
  end.

Definition roundtrips (goser : list N) (ts : list token) : bool :=
  toks_eqb (norm (tokenize true goser)) (norm ts).

Definition opt_toks_eqb (a b : option (list token)) : bool :=
  match a, b with
  | None, None => true
  | Some x, Some y => toks_eqb x y
  | _, _ => false
  end.

Definition compound_eqb (a b : compound) : bool :=
  match a, b with
  | CQualified p c, CQualified p' c' => toks_eqb p p' && toks_eqb c c'
  | CAtRule k p c, CAtRule k' p' c' => str_eqb k k' && toks_eqb p p' && opt_toks_eqb c c'
  | CDecl n v i, CDecl n' v' i' => str_eqb n n' && toks_eqb v v' && Bool.eqb i i'
  | _, _ => false
  end.

Definition compound_wf (c : compound) : bool :=
  match c with
  | CQualified p b => wf_tokens p && wf_tokens b
  | CAtRule kw p b => name_val kw && wf_tokens p && match b with Some b => wf_tokens b | None => true end
  | CDecl n v _ => name_val n && wf_tokens v
  end.

(* the bytes read back, by the specification, as the compound *)
Definition reads_back (goser : list N) (c : compound) : bool :=
  match read_back c (norm (tokenize true goser)) with     (* the form of C20_compound_roundtrip_statement *)
  | Some c' => compound_eqb (norm_compound c') (norm_compound c)
  | None => false
  end.

Definition check (c : case) : N :=
  match c with
  | CCP c goser ok =>
      if negb ok then 8%N
      else if negb (compound_error_free c) then 2%N
      else if negb (compound_wf c) then 7%N
      else match ser_compound c with
           | Ok s => if negb (str_eqb s goser) then 9%N
                     else if negb (reads_back goser c) then 10%N else 0%N
           | _ => 9%N
           end
  | CRT skip src ts goser ok =>
      if negb ok then 1%N
      else if negb (toks_eqb (tokenize skip src) ts) then 5%N
      else if negb (error_free ts) then 2%N
      else if negb (wf_tokens ts) then 7%N
      else if negb (roundtrips goser ts) then 3%N
      else match serialize ts with
           | Ok s => if str_eqb s goser then 0%N
                     else if roundtrips s ts then 4%N else 6%N
           | _ => 6%N
           end
  end.

(* for replay files: the model's serialization, its re-tokenisation by the
   specification, and the specification's tokenisation of the source *)
Inductive observable :=
| Obs (model_ser : res str) (spec_retok_of_go_ser spec_tok_of_src : list token)
| ObsCompound (model_ser : res str) (spec_read_back_of_go_ser : option compound).
Definition model_out (c : case) : observable :=
  match c with
  | CCP c goser _ => ObsCompound (ser_compound c) (option_map norm_compound (read_back c (norm (tokenize true goser))))
  | CRT skip src ts goser _ => Obs (serialize ts) (norm (tokenize true goser)) (tokenize skip src)
  end.

Fixpoint mismatches (i : N) (cs : list case) : list (N * N) :=
  match cs with
  | [] => []
  | c :: r => let k := check c in
              if N.eqb k 0 then mismatches (N.succ i) r else (i, k) :: mismatches (N.succ i) r
  end.
