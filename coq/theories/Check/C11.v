(* Check/C11.v -- correspondence between /repo's inline layout (html/layout/inline.go on top
   of text/engine_pango.go | text/engine_gotext.go) and the model of Layout/LineBreak.v.
   The Go harness (go/cmd/c11) writes one `case` per (paragraph, container width): the item
   list it projected from /repo's box tree BEFORE layout, and what /repo's layout produced.

   CPara  (Ahem, every glyph an em square => integer widths): equality with the model on
          the observables the property determines (licensed by C11_break_unique):
          number of lines, per line y / height / x and width of every text fragment and
          atomic box.
   CSplit text.SplitFirstLine called directly on one text run: resumeAt > 0, length <= resumeAt,
          and (Ahem) equality with the first line of the model.
   CMon   MONITOR for real fonts (weasyprint.otf): only the inequalities lines_fit /
          no_forbidden_break / lines_stack, evaluated with the widths the implementation
          reported; no equality.
   codes: 0 agree; 1 number of lines; 2 skipped (inexact float32 quotient in justification);
          3 fragment geometry; 4 line y / height; 5 SplitFirstLine contract; 6 SplitFirstLine
          differs from the model's first line; 7 monitor: a line overflows although it has a
          break opportunity; 8 monitor: break at a forbidden position; 9 monitor: lines do not
          stack; 10 malformed case (projection failed); 11 x / width of a line box;
          21-23 known findings described exactly by a variant of the model; 101-107 = 100 +
          flags: the input has the structural trigger of a known finding (1 t_space_limit,
          2 t_glued, 4 t_nested) AND the vertical geometry of the implementation's own lines
          is right (vert_ok; otherwise 4). *)
From Verif Require Export Layout.LineBreak Layout.LineBreakSpec.
From Coq Require Import List ZArith QArith Qminmax Qabs Bool NArith.
Import ListNotations.
Open Scope Z_scope.

(* what SplitFirstLine returned: length (runes kept), resumeAt (-1 = everything fits), width *)
Inductive mline := ML (nsolid : N) (w y h : Q).

Inductive case :=
| CPara (c : cfg) (items : list item) (out : list oline)
| CSplit (exact : bool) (emv maxw : Z) (items : list item) (len resume : Z) (w : Q)
| CMon (availq indentq : Q) (items : list item) (lines : list mline)
| CBoxes (bs : list iboxo)
| CVert (ls : list vline)
| CBad (why : N).

Definition model_out (c : case) : list oline :=
  match c with
  | CPara cf items _ => layout cf items
  | _ => []
  end.

Definition frag_eqb (a b : frag) : bool :=
  match a, b with
  | FT x w, FT x' w' | FA x w, FA x' w' => Qeq_bool x x' && Qeq_bool w w'
  | _, _ => false
  end.

Fixpoint frags_eqb (a b : list frag) : bool :=
  match a, b with
  | [], [] => true
  | x :: r, y :: s => frag_eqb x y && frags_eqb r s
  | _, _ => false
  end.

(* is q exactly representable in binary32 with the magnitudes used here: denominator a
   power of two (the implementation computes extra/nspaces in float32) *)
Fixpoint pow2_pos (p : positive) : bool :=
  match p with xH => true | xO q => pow2_pos q | xI _ => false end.
Definition dyadic (q : Q) : bool := pow2_pos (Qden (Qred q)).

Definition frag_dyadic (f : frag) : bool :=
  match f with FT x w | FA x w => dyadic x && dyadic w end.

Fixpoint lines_cmp (m o : list oline) : N :=
  match m, o with
  | [], [] => 0
  | a :: r, b :: s =>
      if negb (forallb frag_dyadic (ofr a) && dyadic (ox a) && dyadic (ow a)) then 2
      else if negb (frags_eqb (ofr a) (ofr b)) then 3
      else if negb (Qeq_bool (oy a) (oy b) && Qeq_bool (oh a) (oh b)) then 4
      else if negb (Qeq_bool (ox a) (ox b) && Qeq_bool (ow a) (ow b)) then 11
      else lines_cmp r s
  | _, _ => 1
  end%N.

(* ---- SplitFirstLine *)
Definition glyphs (emv : Z) (l : list item) : Z :=
  fold_right (fun i a => match i with Word w | Space _ w => w / emv + a | Hard => 1 + a | _ => a end) 0 l.
(* (EB counts for nothing: it is a position between two glyphs) *)

Definition no_hard (l : list item) : list item := filter (fun i => negb (is_hard i)) l.

(* (length kept on the first line, index where the second line starts or -1, the smallest
   such index: the collapsible spaces that end the first line may as well be handed over to
   the second one, where they are skipped) *)
Definition split_expect (emv maxw : Z) (items : list item) : Z * Z * Z :=
  match flat_e (break_lines_e maxw 0 items) with
  | [] => (0, -1, -1)
  | [l] => (glyphs emv (no_hard (trim_line l)), -1, -1)
  | l :: _ => (glyphs emv (no_hard (trim_line l)), glyphs emv l,
               if existsb is_hard l then glyphs emv l else glyphs emv (no_hard (trim_line l)))
  end.

(* ---- monitor *)
Definition is_solid_item (i : item) : bool :=
  match i with Word _ | Atomic _ _ _ => true | _ => false end.

(* number of cut positions strictly between the k-th solid item (1-based) and the next one:
   walk the list, `seen` = solids passed *)
Fixpoint cut_in_gap (pre suf : list item) (seen k : N) : bool :=
  match suf with
  | [] => false
  | x :: r =>
      let here := (N.eqb seen k) && negb (is_nil pre) && cut_b pre suf in
      let seen' := if is_solid_item x then N.succ seen else seen in
      if here then true
      else if N.ltb k seen then false
      else cut_in_gap (x :: pre) r seen' k
  end.

Definition slack (a : Q) : Q := a + Qabs a * (1 # 1024) + (1 # 1024).

(* y_k + h_k against y_{k+1}: the implementation adds in float32 (one rounding, 2^-24
   relative); real-font heights are not dyadic-friendly, so allow 2^-20 *)
Definition close (a b : Q) : bool := Qle_bool (Qabs (a - b)) ((Qabs b + 1) * (1 # 1048576)).

(* lines: (solids on the line, occupied width, y, h); `from` = solids before the line *)
Fixpoint mon (availq av : Q) (items : list item) (from : N) (ls : list mline) : N :=
  match ls with
  | [] => 0
  | ML n w y h :: r =>
      let last := N.add from n in
      (* single unit: no cut between consecutive solids of the line *)
      let multi := existsb (fun j => cut_in_gap [] items 0 (N.add from (N.of_nat j)))
                           (seq 1 (N.to_nat n - 1)) in
      if negb (Qle_bool w (slack av)) && multi then 7
      else match r with
           | [] => 0
           | ML _ _ y' _ :: _ =>
               if negb (cut_in_gap [] items 0 last) then 8
               else if negb (close (y + h) y') then 9
               else mon availq availq items last r
           end
  end%N.

(* ---- variants describing KNOWN FINDINGS exactly (known_findings.json): when the
   implementation differs from the model but equals the model run on the transformed item
   list, the disagreement is reported under its own code, so that the finding's matcher
   accepts nothing else.
   v_lead  (code 21): inline.go:249-303 skipFirstWhitespace encodes "leading collapsible space
           skipped" as a resume position inside the inline boxes that start the line, and
           splitInlineBox (isStart := skipStack == nil) then treats those boxes as
           continuations: their start margin/border/padding is dropped.
   v_br    (code 22): inline.go:307-320 removeLastWhitespace only looks at the last child of
           the line; when that is a <br> the collapsible space before it is kept. *)
Fixpoint opens_then_space (l : list item) : bool :=
  match l with
  | Open _ :: r => opens_then_space r
  | Space m _ :: _ => collapses m
  | _ => false
  end.

Fixpoint v_lead (ls : bool) (l : list item) : list item :=
  match l with
  | [] => []
  | Open e :: r => (if ls && opens_then_space r then Open 0 else Open e) :: v_lead ls r
  | Close e :: r => Close e :: v_lead ls r
  | Hard :: r => Hard :: v_lead true r
  | Space m w :: r => Space m w :: v_lead (ls && collapses m) r
  | EB :: r => EB :: v_lead ls r
  | i :: r => i :: v_lead false r
  end.

Fixpoint br_follows (l : list item) (opened : bool) : bool :=
  match l with
  | Open _ :: r => br_follows r true
  | Close _ :: r => br_follows r opened
  | Hard :: _ => opened
  | _ => false
  end.

(* (solid: something precedes the space on the line; a leading space is skipped before:
   inline.go:246-303 skipFirstWhitespace) *)
Fixpoint v_br_from (solid : bool) (l : list item) : list item :=
  match l with
  | [] => []
  | Space m w :: r =>
      (if collapses m && solid && br_follows r false then Space Pre w else Space m w)
      :: v_br_from (solid || negb (collapses m)) r
  | Hard :: r => Hard :: v_br_from false r
  | Word x :: r => Word x :: v_br_from true r
  | Atomic m x h :: r => Atomic m x h :: v_br_from true r
  | i :: r => i :: v_br_from solid r
  end.
Definition v_br (l : list item) : list item := v_br_from false l.

(* ---- STRUCTURAL TRIGGERS of the other known findings, computed from the input alone (item
   list and container width, never from what the implementation returned).  A disagreement
   on an input that has a trigger is reported under code 100 + flags, so that the matchers of
   those findings (known_findings.json: code + symptom tag) accept nothing that lacks the
   construct the defect needs.  Flags: 1 t_space_limit, 2 t_glued, 4 t_nested (each finding's
   matcher = a code holding its flag + its own symptom tag).
   t_space_limit (flag 1): in the model's own partition some line ends with a collapsible
           space that ends its text node (the next item is not a Word) and that does not fit
           in the room left: the situation in which text.SplitFirstLine reports a break at
           the very end of the text or silently drops the space (findings
           C11/space-at-limit-... ).
   t_glued (flag 2) / t_nested (flag 4): t_glued: a unit holds emergency break opportunities (overflow-wrap) together
           with content of another box (a second text, an atomic inline): the implementation
           only breaks a word in an emergency when its text box starts the line
           (inline.go:623 isLineStart); or nested_start (below).  Finding
           C11/overflow-wrap-line-start-test. *)
Definition starts_word (l : list item) : bool :=
  match l with Word _ :: _ => true | _ => false end.

Fixpoint closes_w (l : list item) : Z :=
  match l with Close e :: r => e + closes_w r | _ => 0 end.

(* scans the n next items of l (pre = what precedes them on the line, reversed) for a
   collapsible space that ends its text node and that does not fit, with the end edges
   that stick to it, in the room av; `fits` : the text before it must fit *)
Fixpoint scan_limit (fits : bool) (av : Z) (pre l : list item) (n : nat) : bool :=
  match n, l with
  | S n', i :: r =>
      (match i with
       | Space m w =>
           collapses m && negb (starts_word r) &&
           (negb fits || (lw (rev pre) <=? av)) && (av <? lw (rev pre) + w + closes_w r)
       | _ => false
       end) || scan_limit fits av (i :: pre) r n'
  | _, _ => false
  end.

(* for every line of the model's partition: such a space on the line itself, or on the
   next line when the text before it would still have fitted on this one (the model moved
   it down because of the space's end edges) *)
Fixpoint space_limit (avail av : Z) (ls : list (list item)) : bool :=
  match ls with
  | [] => false
  | l :: r =>
      scan_limit false av [] (l ++ concat r) (length l)
      || (match r with
          | n :: r' => scan_limit true av (rev l) (n ++ concat r') (length n)
          | [] => false
          end)
      || space_limit avail avail r
  end.

Definition t_space_limit (cf : cfg) (items : list item) : bool :=
  space_limit (avail cf) (avail cf - indent cf) (flat_e (break_lines_e (avail cf) (indent cf) items)).

(* number of stretches of text (Word / Space) of a unit, a stretch ending at an inline-box
   edge, an atomic inline or a forced break *)
Fixpoint stretches (u : list item) (inside : bool) : nat :=
  match u with
  | [] => 0
  | Word _ :: r | Space _ _ :: r => (if inside then 0 else 1) + stretches r true
  | EB :: r => stretches r inside
  | _ :: r => stretches r false
  end.

Definition is_atomic_item (i : item) : bool := match i with Atomic _ _ _ => true | _ => false end.

Definition glued_unit (u : list item) : bool :=
  existsb is_eb u && ((2 <=? stretches u false)%nat || existsb is_atomic_item u).

(* ... that does not fit in a line (otherwise neither the model nor the implementation
   breaks inside it) *)
Definition t_glued (cf : cfg) (items : list item) : bool :=
  existsb (fun u => glued_unit u && (avail cf - Z.max 0 (indent cf) <? lw u)) (units items).

(* ... and, the other way round, the implementation takes a text box for the start of the
   line as long as no DIRECT child of the line box is finished (lineChildren only records
   those): inside an inline box that already holds content on the line, a word that follows
   a regular break opportunity is broken in the middle of the line.  Trigger: a cut position
   inside a top-level inline box, after some content of that box, followed by a breakable
   word. *)
(* (the emergency opportunity that follows the first glyph may lie behind inline-box edges:
   `e</span>NALlz` is one unbreakable sequence, go/cmd/c11 crossBoxEB puts its EB after the
   Closes) *)
Fixpoint eb_after_edges (suf : list item) : bool :=
  match suf with
  | Open _ :: r | Close _ :: r => eb_after_edges r
  | EB :: _ => true
  | _ => false
  end.

Fixpoint breakable_next (suf : list item) : bool :=
  match suf with
  | Open _ :: r => breakable_next r
  | Word _ :: r => eb_after_edges r
  | _ => false
  end.

(* starts = the offsets (number of items) at which the lines of the model's partition start:
   only a position where the model starts a line counts (the word did not fit in what was
   left of the previous line) *)
Fixpoint nested_start (starts : list nat) (n : nat) (pre suf : list item) (depth : nat) (seen : bool) : bool :=
  match suf with
  | [] => false
  | i :: r =>
      ((0 <? depth)%nat && seen && negb (is_nil pre) && cut_b pre suf && breakable_next suf
       && existsb (Nat.eqb n) starts)
      || match i with
         | Open _ => nested_start starts (S n) (i :: pre) r (S depth) seen
         | Close _ => nested_start starts (S n) (i :: pre) r (pred depth) (match depth with 1%nat => false | _ => seen end)
         | Word _ | Space _ _ | Atomic _ _ _ => nested_start starts (S n) (i :: pre) r depth (seen || (0 <? depth)%nat)
         | _ => nested_start starts (S n) (i :: pre) r depth seen
         end
  end.

Fixpoint line_starts (n : nat) (ls : list (list item)) : list nat :=
  match ls with
  | [] => []
  | l :: r => n :: line_starts (n + length l) r
  end.

Definition t_nested (cf : cfg) (items : list item) : bool :=
  nested_start (line_starts 0 (flat_e (break_lines_e (avail cf) (indent cf) items))) 0 [] items 0 false.

Definition t_ow (cf : cfg) (items : list item) : bool := t_glued cf items || t_nested cf items.

(* ---- vertical geometry, INDEPENDENT of the line partition (theorems C11_lines_stack,
   C11_line_height_atomics): the first line starts at the top of the content box, every
   line starts where the previous one ends, and the height of a line is line_height of the
   atomic inlines whose boxes are on it (the k-th atomic box is the k-th Atomic item; no
   atomic: the strut alone, i.e. line-height).  A disagreement of this kind is reported
   as code 4 whatever structural trigger of a known finding the input has: none of the
   known findings below touches heights. *)
Definition is_fa_frag (f : frag) : bool := match f with FA _ _ => true | FT _ _ => false end.

Fixpoint vert (cf : cfg) (y : Q) (ats : list item) (out : list oline) : bool :=
  match out with
  | [] => true
  | o :: r =>
      let n := length (filter is_fa_frag (ofr o)) in
      Qeq_bool (oy o) y && Qeq_bool (oh o) (line_height cf (firstn n ats))
      && vert cf (y + oh o)%Q (skipn n ats) r
  end.

Definition vert_ok (cf : cfg) (items : list item) (out : list oline) : bool :=
  vert cf (y0 cf) (filter is_atomic_item items) out.

Definition para_check (cf : cfg) (items : list item) (out : list oline) : N :=
  let k := lines_cmp (layout cf items) out in
  if N.eqb k 0 || N.eqb k 2 then k
  else if negb (vert_ok cf items out) then 4%N
  else
    let k1 := lines_cmp (layout cf (v_lead true items)) out in
    let k2 := lines_cmp (layout cf (v_br items)) out in
    let k3 := lines_cmp (layout cf (v_br (v_lead true items))) out in
    if N.eqb k1 0 then 21%N
    else if N.eqb k2 0 then 22%N
    else if N.eqb k3 0 then 23%N
    else if N.eqb k1 2 || N.eqb k2 2 || N.eqb k3 2 then 2%N   (* a variant is inexact: undecided *)
    else
      (* (the start edges that C11/lead-space-in-span-drops-start-edge removes and the space
         that C11/space-before-br-kept keeps change what fits: a trigger counts when the
         input or one of its variants has it) *)
      let vs := [items; v_lead true items; v_br items; v_br (v_lead true items)] in
      let f := ((if existsb (t_space_limit cf) vs then 1 else 0)
                + (if existsb (t_glued cf) vs then 2 else 0)
                + (if existsb (t_nested cf) vs then 4 else 0))%N in
      if N.eqb f 0 then k else (100 + f)%N.

Definition check (c : case) : N :=
  match c with
  | CPara cf items out => para_check cf items out
  | CSplit exact emv maxw items len resume w =>
      if (resume =? 0) || ((resume >? 0) && (resume <? len)) || (len <? 0) then 5%N
      else if exact then
        let '(el, er, er0) := split_expect emv maxw items in
        if (el =? len) && (er0 <=? resume) && (resume <=? er) && ((0 <=? er) || (resume =? -1)) then 0%N else 6%N
      else 0%N
  | CMon availq indentq items lines =>
      (* the implementation's line width includes the text-indent of the first line *)
      mon availq availq items 0 lines
  | CBoxes bs => if forallb ibox_ok bs then 0%N else 31%N
  | CVert ls => if forallb vline_tall_b ls && vstacked_b ls then 0%N else 32%N
  | CBad _ => 10%N
  end.

Fixpoint mismatches (i : N) (cs : list case) : list (N * N) :=
  match cs with
  | [] => []
  | c :: r => let k := check c in
              if N.eqb k 0 then mismatches (N.succ i) r else (i, k) :: mismatches (N.succ i) r
  end.
