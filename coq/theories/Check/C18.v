(* Check/C18.v -- correspondence between /repo/svg (path data, shapes,
   viewBox, reference graphs) and the models of Geom/SvgPath.v, Geom/Shapes.v,
   Geom/UseGraph.v and Geom/Matrix.v (viewbox_transform), evaluated with the
   float32 instance.  The Go harness (go/cmd/c18) writes one `case` per
   implementation run: the input and what the implementation did.
   codes: 0 agree; 1 op list differs; 2 skipped (model value out of binary32
   range); 3 the concrete syntax, a legal spelling of the abstract command
   list, is not lexed back to it by the (ported) scanner; 4 implementation
   panicked / died / hung where the model terminates normally; 5 accept/reject
   differs on a legal input; 6 viewBox transform differs. *)
From Verif Require Export Base.F32 Base.GoSem Geom.Matrix Geom.SvgPath Geom.Shapes Geom.UseGraph.
From Coq Require Import QArith List NArith ZArith Bool String Ascii.
Import ListNotations.
Open Scope Q_scope.

(* byte strings are written as Coq string literals in the case files *)
Fixpoint bs (s : string) : list N :=
  match s with
  | EmptyString => []
  | String a r => N_of_ascii a :: bs r
  end.

(* implementation side: one pathItem / one backend call.
   kind 0 MoveTo, 1 LineTo, 2 CubicTo, 3 ClosePath, 4 Rectangle *)
Inductive iop := IOp (k : N) (a b c d e f : Q).
Inductive ires := IErr | IPanic | IOk (l : list iop).
(* abstract segment: command letter and the exact values of the numbers as written *)
Inductive aseg := ASeg (letter : N) (args : list Q).

(* what Draw did on a document: status 0 ok, 1 parse error, 2 panic, 3 fatal (process died), 4 hang *)
Inductive dres := DRes (status : N) (l : list iop).

Inductive case :=
| CPath (cmds : list aseg) (d : list N) (r : ires)
| CBad (d : list N) (r : ires)
| CPoints (arc : bool) (inrange : bool) (nums : list Q) (d : list N) (ok : bool) (out : list Q)
| CViewbox (p : par) (w h vx vy vw vh : Q) (o1 o2 o3 o4 : Q)
| CShapes (shs : list shape) (r : dres)
| CUse (g : graph) (root : list item) (r : dres)
| CRefs (r : dres).

Definition pf := parse_path f32 rnd32 cv_f32.

Definition qeqb := Qeq_bool.
Fixpoint qlist_eqb (l1 l2 : list Q) : bool :=
  match l1, l2 with
  | [], [] => true
  | a :: r1, b :: r2 => Qeq_bool a b && qlist_eqb r1 r2
  | _, _ => false
  end.

(* one model op against one implementation op.  loose: control points of
   cubics are not compared (shape outlines: only on-curve points are determined) *)
Definition op_match (loose : bool) (m : op) (i : iop) : bool :=
  let '(IOp k a b c d e f) := i in
  match m with
  | OMove x y => (k =? 0)%N && qeqb x a && qeqb y b
  | OLine x y => (k =? 1)%N && qeqb x a && qeqb y b
  | OCubic x1 y1 x2 y2 x3 y3 =>
      (k =? 2)%N && qeqb x3 e && qeqb y3 f &&
      (loose || (qeqb x1 a && qeqb y1 b && qeqb x2 c && qeqb y2 d))
  | OClose x y => (k =? 3)%N && (loose || (qeqb x a && qeqb y b))
  | OArc _ _ _ _ _ _ _ _ _ => false
  end.

Definition is_cubic_to (i : iop) (x y : Q) : bool :=
  let '(IOp k _ _ _ _ e f) := i in (k =? 2)%N && qeqb x e && qeqb y f.
Definition is_cubic (i : iop) : bool := let '(IOp k _ _ _ _ _ _) := i in (k =? 2)%N.

(* what the model expects from the implementation: an exact op, an op whose
   control points are free, or a Rectangle call *)
Inductive pat := PExact (o : op) | PLoose (o : op) | PRect (x y w h : Q).

Definition pat_match (p : pat) (i : iop) : bool :=
  match p with
  | PExact o => op_match false o i
  | PLoose o => op_match true o i
  | PRect x y w h => let '(IOp k a b c d _ _) := i in
                     (k =? 4)%N && qeqb x a && qeqb y b && qeqb w c && qeqb h d
  end.

(* OArc matches a non-empty run of cubics whose last one ends exactly at the
   arc's end point (all splits are tried) *)
Fixpoint match_pats (ms : list pat) (is : list iop) {struct ms} : bool :=
  match ms with
  | [] => match is with [] => true | _ => false end
  | PExact (OArc _ _ _ _ _ _ _ x y) :: mr | PLoose (OArc _ _ _ _ _ _ _ x y) :: mr =>
      (fix arc (is : list iop) : bool :=
         match is with
         | [] => false
         | i :: ir =>
             (* `if` rather than && / ||: vm_compute is call-by-value *)
             if is_cubic i then
               (if is_cubic_to i x y then (if match_pats mr ir then true else arc ir) else arc ir)
             else false
         end) is
  | m :: mr => match is with
               | i :: ir => if pat_match m i then match_pats mr ir else false
               | [] => false
               end
  end.

Definition op_vals (m : op) : list Q :=
  match m with
  | OMove x y | OLine x y | OClose x y => [x; y]
  | OCubic a b c d e f => [a; b; c; d; e; f]
  | OArc a b _ _ _ _ _ e f => [a; b; e; f]
  end.
Definition ops_in_range (l : list op) : bool := forallb (fun m => forallb in_range32 (op_vals m)) l.

(* ------------------------------------------------------------------ *)
Definition seg_eqb (a : aseg) (s : N * list Q) : bool :=
  let '(ASeg o args) := a in (o =? fst s)%N && qlist_eqb (map rnd32 args) (snd s).
Fixpoint segs_eqb (l1 : list aseg) (l2 : list (N * list Q)) : bool :=
  match l1, l2 with
  | [], [] => true
  | a :: r1, b :: r2 => seg_eqb a b && segs_eqb r1 r2
  | _, _ => false
  end.

Definition check_path (cmds : list aseg) (d : list N) (r : ires) : N :=
  match lex_path cv_f32 d with
  | Ok (Some segs) =>
      if negb (segs_eqb cmds segs) then 3%N else
      match pf d, r with
      | Ok (Some ms), IOk is =>
          if negb (ops_in_range ms) then 2%N
          else if match_pats (map PExact ms) is then 0%N else 1%N
      | Ok (Some _), IErr => 5%N
      | Ok None, IErr => 0%N
      | Ok None, IOk _ => 5%N
      | _, IPanic => 4%N
      | _, _ => 1%N
      end
  | _ => 3%N
  end.

Definition check_bad (d : list N) (r : ires) : N :=
  match pf d, r with
  | Ok _, IPanic => 4%N
  | Ok _, _ => 0%N
  | _, IPanic => 0%N
  | _, _ => 1%N       (* the model panics or runs out of fuel, the implementation does not *)
  end.

(* inrange: every number written is within the binary32 range (computed by the
   harness from the exact values); otherwise ParseFloat reports ErrRange and the
   whole list is rejected *)
Definition check_points (arc inrange : bool) (nums : list Q) (d : list N) (ok : bool) (out : list Q) : N :=
  match parse_points cv_f32 arc d with
  | Ok (Some l) => if negb inrange then 5%N
                   else if negb (qlist_eqb (map rnd32 nums) l) then 3%N
                   else if negb ok then 5%N
                   else if qlist_eqb l out then 0%N else 1%N
  | Ok None => if inrange then 3%N else if ok then 5%N else 0%N
  | _ => 1%N
  end.

Definition check_viewbox (p : par) (w h vx vy vw vh o1 o2 o3 o4 : Q) : N :=
  let '(a, b, c, d) := viewbox_transform f32 p w h vx vy vw vh in
  if negb (forallb in_range32 [a; b; c; d]) then 2%N
  else if qlist_eqb [a; b; c; d] [o1; o2; o3; o4] then 0%N else 6%N.

(* documents: the sequence of MoveTo/LineTo/CubicTo/ClosePath/Rectangle calls *)
Definition pat_of (m : shape_op) : pat :=
  match m with
  | SRect x y w h => PRect x y w h
  | SOp true (OClose x y) => PLoose (OClose x y)   (* ClosePath() has no arguments *)
  | SOp true o => PExact o
  | SOp false o => PLoose o
  end.
Definition shape_op_vals (m : shape_op) : list Q :=
  match m with SRect x y w h => [x; y; w; h] | SOp _ o => op_vals o end.

Fixpoint shapes_ops (shs : list shape) : res (option (list shape_op)) :=
  match shs with
  | [] => Ok (Some [])
  | s :: r => let* a := shape_ops_opt f32 rnd32 cv_f32 s in
              match a with
              | None => Ok None
              | Some l => let* b := shapes_ops r in Ok (option_map (app l) b)
              end
  end.

Definition check_shapes (shs : list shape) (r : dres) : N :=
  let '(DRes st is) := r in
  if (2 <=? st)%N then 4%N else
  match shapes_ops shs with
  | Ok (Some ms) =>
      if (st =? 1)%N then 5%N
      else if negb (forallb (fun m => forallb in_range32 (shape_op_vals m)) ms) then 2%N
      else if match_pats (map pat_of ms) is then 0%N else 1%N
  | Ok None => if (st =? 1)%N then 0%N else 5%N
  | _ => 1%N
  end.

(* <use> graphs: leaves are unit squares <rect x=n>, drawn in traversal order;
   a recursive <use> makes Parse fail *)
Definition leaf_match (n : N) (i : iop) : bool :=
  let '(IOp k a _ _ _ _ _) := i in (k =? 4)%N && qeqb (inject_Z (Z.of_N n)) a.
Fixpoint leaves_match (ns : list N) (is : list iop) : bool :=
  match ns, is with
  | [], [] => true
  | n :: nr, i :: ir => leaf_match n i && leaves_match nr ir
  | _, _ => false
  end.

Definition check_use (g : graph) (root : list item) (r : dres) : N :=
  let '(DRes st is) := r in
  if (2 <=? st)%N then 4%N else
  match document g root with
  | Ok (Some ns) => if (st =? 1)%N then 5%N else if leaves_match ns is then 0%N else 1%N
  | Ok None => if (st =? 1)%N then 0%N else 5%N
  | _ => 1%N
  end.

(* reference graphs among gradients / patterns / markers / clip paths / masks:
   the property only says drawing terminates normally *)
Definition check_refs (r : dres) : N :=
  let '(DRes st _) := r in if (2 <=? st)%N then 4%N else 0%N.

Definition check (c : case) : N :=
  match c with
  | CPath cmds d r => check_path cmds d r
  | CBad d r => check_bad d r
  | CPoints arc inrange nums d ok out => check_points arc inrange nums d ok out
  | CViewbox p w h vx vy vw vh o1 o2 o3 o4 => check_viewbox p w h vx vy vw vh o1 o2 o3 o4
  | CShapes shs r => check_shapes shs r
  | CUse g root r => check_use g root r
  | CRefs r => check_refs r
  end.

(* model observable, for replay files *)
Inductive mout :=
| MPath (lexed : res (option (list (N * list Q)))) (ops : res (option (list op)))
| MPoints (r : res (option (list Q)))
| MViewbox (a b c d : Q)
| MShapes (l : res (option (list shape_op)))
| MUse (r : res (option (list N)))
| MNone.

Definition model_out (c : case) : mout :=
  match c with
  | CPath _ d _ => MPath (lex_path cv_f32 d) (pf d)
  | CBad d _ => MPath (lex_path cv_f32 d) (pf d)
  | CPoints arc _ _ d _ _ => MPoints (parse_points cv_f32 arc d)
  | CViewbox p w h vx vy vw vh _ _ _ _ =>
      let '(a, b, c, d) := viewbox_transform f32 p w h vx vy vw vh in MViewbox a b c d
  | CShapes shs _ => MShapes (shapes_ops shs)
  | CUse g root _ => MUse (document g root)
  | CRefs _ => MNone
  end.

Fixpoint mismatches (i : N) (cs : list case) : list (N * N) :=
  match cs with
  | [] => []
  | c :: r => let k := check c in
              if N.eqb k 0 then mismatches (N.succ i) r else (i, k) :: mismatches (N.succ i) r
  end.
