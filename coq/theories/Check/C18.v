(* Check/C18.v -- correspondence between /repo/svg (path data, shapes,
   viewBox, reference graphs) and the models of Geom/SvgPath.v, Geom/Shapes.v,
   Geom/UseGraph.v and Geom/Matrix.v (viewbox_transform), evaluated with the
   float32 instance.  The Go harness (go/cmd/c18) writes one `case` per
   implementation run: the input and what the implementation did.
   codes: 0 agree; 1 op list differs; 2 skipped (model value out of binary32
   range); 3 the concrete syntax, a legal spelling of the abstract command
   list, is not lexed back to it by the (ported) scanner; 4 implementation
   panicked / died / hung where the model terminates normally; 5 accept/reject
   differs on a legal input; 6 viewBox transform differs; 7 the cubics emitted
   for an arc do not lie on the ellipse SVG defines for it (Geom/SvgArcSpec.v:
   F.6.5 / F.6.6) or do not run from the start to the end point in the
   direction of the sweep flag; 8 the harness' cos / sin oracle for an arc's
   x-axis-rotation is missing or is not the cosine / sine of that angle.
   iop kinds 5 (State().Transform a b c d e f) and 6 (SetLineWidth w) occur in
   `CUses` cases only (instances of <use>: Geom/UseGraph.v draw_uses). *)
From Verif Require Export Base.F32 Base.GoSem Geom.Matrix Geom.SvgPath Geom.Shapes Geom.SvgUnits Geom.UseGraph Geom.SvgArcSpec.
From Coq Require Import QArith Qabs Qround List NArith ZArith Bool String Ascii.
Import ListNotations.
Open Scope Q_scope.

(* byte strings are written as Coq string literals in the case files *)
Fixpoint bs (s : string) : list N :=
  match s with
  | EmptyString => []
  | String a r => N_of_ascii a :: bs r
  end.

(* implementation side: one pathItem / one backend call.
   kind 0 MoveTo, 1 LineTo, 2 CubicTo, 3 ClosePath, 4 Rectangle *)
Inductive iop := IOp (k : N) (a b c d e f : Q).
Inductive ires := IErr | IPanic | IOk (l : list iop).
(* abstract segment: command letter and the exact values of the numbers as written *)
Inductive aseg := ASeg (letter : N) (args : list Q).

(* what Draw did on a document: status 0 ok, 1 parse error, 2 panic, 3 fatal (process died), 4 hang *)
Inductive dres := DRes (status : N) (l : list iop).

(* oracle: cos / sin of an arc's x-axis-rotation `rot` (degrees, the binary32
   value), as computed by the harness with Go's math.Cos / math.Sin of
   float64(rot) * math.Pi / 180 (the expression of elements_path.go:431).
   Checked below against Taylor polynomials (`trig_ok`). *)
Inductive tent := TEnt (rot c s : Q).

Inductive case :=
| CPath (cmds : list aseg) (d : list N) (tr : list tent) (r : ires)
| CBad (d : list N) (r : ires)
| CPoints (arc : bool) (inrange : bool) (nums : list Q) (d : list N) (ok : bool) (out : list Q)
| CViewbox (p : par) (w h vx vy vw vh : Q) (o1 o2 o3 o4 : Q)
| CShapes (fs : ouval) (vw vh : Q) (shs : list ushape) (tr : list tent) (r : dres)
| CUse (g : graph) (root : list item) (r : dres)
| CUses (ds : list udef) (us : list use_inst) (r : dres)
| CRefs (r : dres).

Definition pf := parse_path f32 rnd32 cv_f32.

Definition qeqb := Qeq_bool.
Fixpoint qlist_eqb (l1 l2 : list Q) : bool :=
  match l1, l2 with
  | [], [] => true
  | a :: r1, b :: r2 => Qeq_bool a b && qlist_eqb r1 r2
  | _, _ => false
  end.

(* one model op against one implementation op.  loose: control points of
   cubics are not compared (shape outlines: only on-curve points are determined) *)
Definition op_match (loose : bool) (m : op) (i : iop) : bool :=
  let '(IOp k a b c d e f) := i in
  match m with
  | OMove x y => (k =? 0)%N && qeqb x a && qeqb y b
  | OLine x y => (k =? 1)%N && qeqb x a && qeqb y b
  | OCubic x1 y1 x2 y2 x3 y3 =>
      (k =? 2)%N && qeqb x3 e && qeqb y3 f &&
      (loose || (qeqb x1 a && qeqb y1 b && qeqb x2 c && qeqb y2 d))
  | OClose x y => (k =? 3)%N && (loose || (qeqb x a && qeqb y b))
  | OArc _ _ _ _ _ _ _ _ _ => false
  end.

Definition is_cubic_to (i : iop) (x y : Q) : bool :=
  let '(IOp k _ _ _ _ e f) := i in (k =? 2)%N && qeqb x e && qeqb y f.
Definition is_cubic (i : iop) : bool := let '(IOp k _ _ _ _ _ _) := i in (k =? 2)%N.

(* what the model expects from the implementation: an exact op, an op whose
   control points are free, or a Rectangle call *)
Inductive pat := PExact (o : op) | PLoose (o : op) | PRect (x y w h : Q)
               | PTrans (a b c d e f : Q) | PLineWidth (w : Q).

Definition pat_match (p : pat) (i : iop) : bool :=
  match p with
  | PExact o => op_match false o i
  | PLoose o => op_match true o i
  | PRect x y w h => let '(IOp k a b c d _ _) := i in
                     (k =? 4)%N && qeqb x a && qeqb y b && qeqb w c && qeqb h d
  | PTrans a b c d e f => let '(IOp k a' b' c' d' e' f') := i in
                          (k =? 5)%N && qeqb a a' && qeqb b b' && qeqb c c' && qeqb d d' && qeqb e e' && qeqb f f'
  | PLineWidth w => let '(IOp k a _ _ _ _ _) := i in (k =? 6)%N && qeqb w a
  end.

(* ------------------------------------------------------------------ *)
(* arcs: the run of cubics emitted for one OArc against Geom/SvgArcSpec.v *)

(* cos / sin of `deg` degrees by exact range reduction (deg mod 360, in Q) and
   the Taylor polynomials of degree 40 in fixed point (scale 2^80); |x| <= pi:
   the remainder pi^41/41! and the accumulated truncations are below 2^-70.
   (That these polynomials approximate the real cosine / sine is not proved in
   Coq; they only replace trust in the harness' oracle.) *)
Definition fx : Z := (2 ^ 80)%Z.
Definition pi_q : Q := 3141592653589793238462643383279502884197 # 1000000000000000000000000000000000000000.

Fixpoint taylor (fuel : nat) (i : Z) (term x cs sn : Z) : Z * Z :=
  match fuel with
  | O => (cs, sn)
  | S f =>
      let m := (i mod 4)%Z in
      let cs' := if (m =? 0)%Z then (cs + term)%Z else if (m =? 2)%Z then (cs - term)%Z else cs in
      let sn' := if (m =? 1)%Z then (sn + term)%Z else if (m =? 3)%Z then (sn - term)%Z else sn in
      taylor f (i + 1)%Z (Z.shiftr (term * x) 80 / (i + 1))%Z x cs' sn'
  end.

Definition cos_sin_deg (deg : Q) : Q * Q :=
  let a := deg - 360 * inject_Z (Qfloor (deg / 360)) in          (* in [0, 360) *)
  let r := if Qle_bool 180 a then a - 360 else a in               (* in [-180, 180) *)
  let x := Qfloor (r * pi_q / 180 * inject_Z fx) in
  let '(cs, sn) := taylor 42 0 fx x 0%Z 0%Z in
  (Qmake cs (Z.to_pos fx), Qmake sn (Z.to_pos fx)).

Definition two_m (n : positive) : Q := Qmake 1 (2 ^ n)%positive.       (* 2^-n *)

(* float64(rot) * math.Pi / 180 carries a relative error of about 2^-52: for
   |rot| < 2^25 degrees the angle is off by less than 2^-32 *)
Definition trig_ok (rot c s : Q) : bool :=
  let '(cs, sn) := cos_sin_deg rot in
  Qle_bool (Qabs (c - cs)) (two_m 30) && Qle_bool (Qabs (s - sn)) (two_m 30).

Fixpoint trig_lookup (tr : list tent) (rot : Q) : option (Q * Q) :=
  match tr with
  | [] => None
  | TEnt r c s :: rest => if Qeq_bool r rot then Some (c, s) else trig_lookup rest rot
  end.

(* floor square root to 2^-60 *)
Definition qsqrt (x : Q) : Q :=
  if Qle_bool x 0 then 0
  else Qmake (Z.sqrt (Qnum x * 2 ^ 120 / Zpos (Qden x))) (2 ^ 60)%positive.

(* fixed point: floor (q 2^40) and back *)
Definition fx40 (q : Q) : Z := Qfloor (q * 1099511627776).
Definition of40 (z : Z) : Q := Qmake z 1099511627776.
Definition r40 (q : Q) : Q := of40 (fx40 q).

(* sample points of a run of cubics starting at (x0, y0), in fixed point: for
   every cubic its point of parameter 1/2, (P0 + 3 C1 + 3 C2 + P3) / 8, and its
   end point *)
Fixpoint run_samples (x0 y0 : Z) (run : list iop) : list (Z * Z) :=
  match run with
  | [] => []
  | IOp _ a b c d e f :: r =>
      let ez := fx40 e in
      let fz := fx40 f in
      (Z.shiftr (x0 + 3 * fx40 a + 3 * fx40 c + ez) 3, Z.shiftr (y0 + 3 * fx40 b + 3 * fx40 d + fz) 3)%Z
      :: (ez, fz) :: run_samples ez fz r
  end.

Definition Qmax (a b : Q) : Q := if Qle_bool a b then b else a.
Definition Qmin (a b : Q) : Q := if Qle_bool a b then a else b.

(* Tolerances.  The emitted coordinates are binary32 roundings (2^-24
   relative) of points computed in float64 about a centre rounded to binary32.
   An arc is "well conditioned" when the magnitude of its coordinates (end
   points, centre) is at most 2^8 times its smaller effective radius and
   Lambda >= 2^-20 (the chord is not below 2^-10 of the diameter: k <= 2^10; and
   the radii are not below 2^-20, the fixed point evaluation has 40 bits): a
   coordinate error is then below 2^-14 in normalised (unit circle)
   coordinates and the squared normalised radius `arc_dev` of a point of the
   ellipse is within 2^-12 of 1.  A cubic spanning at most a quarter turn stays
   within 2^-11 of the arc it approximates.  arc_tol = 2^-10 covers both.
   Arcs that are not well conditioned are only checked for their end point. *)
Definition arc_tol : Q := two_m 10.
Definition nrm_err : Q := two_m 14.

Record arc_geo := mkgeo {
  g_lambda : Q; g_well : bool;
  g_devs : list Q;        (* arc_dev of the samples *)
  g_order : bool          (* samples in cyclic order from start to end in the sweep direction *)
}.

(* start, the samples and the end point, normalised, must be met in this order
   when going round in the sweep direction without passing the end point:
   SvgArcSpec.orient (S_(j-1), S_j, S_last) has the sign of the direction (up to
   the coordinate noise) *)
(* on fixed-point coordinates (scale 2^40); noise: bound of the coordinate
   error in the same units *)
Fixpoint order_ok (dir noise : Z) (last : Z * Z) (l : list (Z * Z)) : bool :=
  match l with
  | p :: r =>
      match r with
      | q :: (_ :: _) =>
          let o := ((fst q - fst p) * (snd last - snd p) - (snd q - snd p) * (fst last - fst p))%Z in
          let len := (Z.abs (fst q - fst p) + Z.abs (snd q - snd p) + Z.abs (fst last - fst p) + Z.abs (snd last - snd p))%Z in
          if (- (noise * len) <=? dir * o)%Z then order_ok dir noise last r else false
      | _ => true
      end
  | [] => true
  end.

(* arc_dev (= dev_of lambda p q (nu P) (nv P) with (p, q) = sigma k (b1, -a1),
   Geom/SvgArcSpec.v) on every sample, in fixed point with scale 2^40 (Q
   arithmetic never reduces fractions): cos / sin, Lambda, the normalised
   centre and the normalised samples are rounded to multiples of 2^-40; the
   normalisation, which is affine (SvgArcProofs.nrm_affine: nrm_u c s rx mx my
   px py = (c/rx) px + (s/rx) py - (c mx + s my)/rx), has its coefficients
   rounded to 2^-64; dev_of on arguments z / 2^40 is computed by the integer
   formulas of SvgArcProofs.dev_of_fixed / dev_of_fixed_big.  For a well
   conditioned arc (Lambda >= 2^-20, k <= 2^10) of coordinates below 2^20 the
   value moves by less than 2^-16, far inside arc_tol. *)
Definition d40 : positive := 1099511627776.
Definition arc_geometry (c0 s0 : Q) (x0 y0 rx0 ry0 large sweep x y : Q) (run : list iop) : arc_geo :=
  let c := r40 c0 in
  let s := r40 s0 in
  let rx := arc_abs rx0 in
  let ry := arc_abs ry0 in
  let fa := negb (Qeq_bool large 0) in
  let fs := negb (Qeq_bool sweep 0) in
  let lam := r40 (lambda x0 y0 rx ry c s x y) in
  let big := if Qlt_le_dec 1 lam then true else false in
  let sc := if big then qsqrt lam else 1 in
  let rxe := rx * sc in
  let rye := ry * sc in
  let mag := Qmax (Qmax (Qabs x0) (Qabs y0)) (Qmax (Qabs x) (Qabs y)) + Qmax rxe rye in
  let well := Qle_bool mag (256 * Qmin rxe rye) && Qle_bool (two_m 20) lam && Qle_bool (two_m 20) (Qmin rxe rye) in
  let k := if big then 0 else qsqrt ((1 - lam) / lam) in
  let sg := sigma fa fs in
  let p := fx40 (sg * k * b1 x0 y0 ry c s x y) in
  let q := fx40 (- (sg * k * a1 x0 y0 rx c s x y)) in
  let mx := mid_x x0 x in
  let my := mid_y y0 y in
  let s64 := 18446744073709551616 in
  let au := Qfloor (c / rx * s64) in
  let bu := Qfloor (s / rx * s64) in
  let cu := fx40 (- ((c * mx + s * my) / rx)) in
  let av := Qfloor (- s / ry * s64) in
  let bv := Qfloor (c / ry * s64) in
  let cv := fx40 (- ((- s * mx + c * my) / ry)) in
  let nrm := fun pt : Z * Z =>
    let '(px, py) := pt in
    ((Z.shiftr (au * px + bu * py) 64 + cu)%Z, (Z.shiftr (av * px + bv * py) 64 + cv)%Z) in
  let x0z := fx40 x0 in
  let y0z := fx40 y0 in
  let npts := map nrm ((x0z, y0z) :: run_samples x0z y0z run) in
  let dev := fun n : Z * Z =>
    let '(u, v) := n in
    if big then Qmake (u * u + v * v) (d40 * d40) / lam
    else Qmake ((u - p) * (u - p) + (v - q) * (v - q)) (d40 * d40) in
  mkgeo lam well (map dev (tl npts))
        (order_ok (if fs then 1 else -1)%Z (fx40 (4 * nrm_err * sc)) (last npts (0, 0)%Z) npts).

Definition geo_ok (g : arc_geo) : bool :=
  negb (g_well g) || (forallb (fun d => Qle_bool (Qabs (d - 1)) arc_tol) (g_devs g) && g_order g).

(* geo = None: end point only *)
Definition arc_run_ok (geo : option (list tent)) (x0 y0 rx ry rot large sweep x y : Q) (run : list iop) : bool :=
  match geo with
  | None => true
  | Some tr =>
      match trig_lookup tr rot with
      | None => false
      | Some (c, s) => geo_ok (arc_geometry c s x0 y0 rx ry large sweep x y run)
      end
  end.

(* OArc matches a non-empty run of cubics whose last one ends exactly at the
   arc's end point and which, with geo = Some oracle, lies on the arc's ellipse
   (all splits are tried) *)
Fixpoint match_pats (geo : option (list tent)) (ms : list pat) (is : list iop) {struct ms} : bool :=
  match ms with
  | [] => match is with [] => true | _ => false end
  | PExact (OArc x0 y0 rx ry rot la sw x y) :: mr | PLoose (OArc x0 y0 rx ry rot la sw x y) :: mr =>
      (fix arc (acc : list iop) (is : list iop) : bool :=
         match is with
         | [] => false
         | i :: ir =>
             (* `if` rather than && / ||: vm_compute is call-by-value *)
             if is_cubic i then
               (if is_cubic_to i x y then
                  (if arc_run_ok geo x0 y0 rx ry rot la sw x y (rev (i :: acc)) then
                     (if match_pats geo mr ir then true else arc (i :: acc) ir)
                   else arc (i :: acc) ir)
                else arc (i :: acc) ir)
             else false
         end) [] is
  | m :: mr => match is with
               | i :: ir => if pat_match m i then match_pats geo mr ir else false
               | [] => false
               end
  end.

Definition pat_arc (p : pat) : option op :=
  match p with
  | PExact (OArc a b c d e f g h i) | PLoose (OArc a b c d e f g h i) => Some (OArc a b c d e f g h i)
  | _ => None
  end.

(* every arc's rotation has an oracle entry that passes trig_ok *)
Definition oracle_ok (tr : list tent) (ms : list pat) : bool :=
  forallb (fun p => match pat_arc p with
                    | Some (OArc _ _ _ _ rot _ _ _ _) =>
                        match trig_lookup tr rot with Some (c, s) => trig_ok rot c s | None => false end
                    | _ => true
                    end) ms.

(* 0 agree; 1 op lists differ; 7 arcs off their ellipse; 8 oracle *)
Definition match_code (tr : list tent) (ms : list pat) (is : list iop) : N :=
  if negb (match_pats None ms is) then 1%N
  else if negb (existsb (fun p => match pat_arc p with Some _ => true | None => false end) ms) then 0%N
  else if negb (oracle_ok tr ms) then 8%N
  else if match_pats (Some tr) ms is then 0%N else 7%N.

(* for replay files: the geometry of every arc, the implementation's ops being
   cut at the first cubic that ends at the arc's end point *)
Fixpoint take_arc (x y : Q) (is : list iop) : list iop * list iop :=
  match is with
  | [] => ([], [])
  | i :: r => if is_cubic i then
                (if is_cubic_to i x y then ([i], r) else let '(a, b) := take_arc x y r in (i :: a, b))
              else ([], is)
  end.
Definition approx (q : Q) : Q := Qred (Qmake (Qfloor (q * 1048576)) 1048576).
Fixpoint arc_diags (tr : list tent) (ms : list pat) (is : list iop) : list arc_geo :=
  match ms with
  | [] => []
  | p :: mr =>
      match pat_arc p with
      | Some (OArc x0 y0 rx ry rot la sw x y) =>
          let '(run, rest) := take_arc x y is in
          match trig_lookup tr rot with
          | Some (c, s) => let g := arc_geometry c s x0 y0 rx ry la sw x y run in
                           mkgeo (approx (g_lambda g)) (g_well g) (map approx (g_devs g)) (g_order g) :: arc_diags tr mr rest
          | None => arc_diags tr mr rest
          end
      | _ => arc_diags tr mr (tl is)
      end
  end.

Definition op_vals (m : op) : list Q :=
  match m with
  | OMove x y | OLine x y | OClose x y => [x; y]
  | OCubic a b c d e f => [a; b; c; d; e; f]
  | OArc a b _ _ _ _ _ e f => [a; b; e; f]
  end.
Definition ops_in_range (l : list op) : bool := forallb (fun m => forallb in_range32 (op_vals m)) l.

(* ------------------------------------------------------------------ *)
Definition seg_eqb (a : aseg) (s : N * list Q) : bool :=
  let '(ASeg o args) := a in (o =? fst s)%N && qlist_eqb (map rnd32 args) (snd s).
Fixpoint segs_eqb (l1 : list aseg) (l2 : list (N * list Q)) : bool :=
  match l1, l2 with
  | [], [] => true
  | a :: r1, b :: r2 => seg_eqb a b && segs_eqb r1 r2
  | _, _ => false
  end.

Definition check_path (cmds : list aseg) (d : list N) (tr : list tent) (r : ires) : N :=
  match lex_path cv_f32 d with
  | Ok (Some segs) =>
      if negb (segs_eqb cmds segs) then 3%N else
      match pf d, r with
      | Ok (Some ms), IOk is =>
          if negb (ops_in_range ms) then 2%N
          else match_code tr (map PExact ms) is
      | Ok (Some _), IErr => 5%N
      | Ok None, IErr => 0%N
      | Ok None, IOk _ => 5%N
      | _, IPanic => 4%N
      | _, _ => 1%N
      end
  | _ => 3%N
  end.

Definition check_bad (d : list N) (r : ires) : N :=
  match pf d, r with
  | Ok _, IPanic => 4%N
  | Ok _, _ => 0%N
  | _, IPanic => 0%N
  | _, _ => 1%N       (* the model panics or runs out of fuel, the implementation does not *)
  end.

(* inrange: every number written is within the binary32 range (computed by the
   harness from the exact values); otherwise ParseFloat reports ErrRange and the
   whole list is rejected *)
Definition check_points (arc inrange : bool) (nums : list Q) (d : list N) (ok : bool) (out : list Q) : N :=
  match parse_points cv_f32 arc d with
  | Ok (Some l) => if negb inrange then 5%N
                   else if negb (qlist_eqb (map rnd32 nums) l) then 3%N
                   else if negb ok then 5%N
                   else if qlist_eqb l out then 0%N else 1%N
  | Ok None => if inrange then 3%N else if ok then 5%N else 0%N
  | _ => 1%N
  end.

Definition check_viewbox (p : par) (w h vx vy vw vh o1 o2 o3 o4 : Q) : N :=
  let '(a, b, c, d) := viewbox_transform f32 p w h vx vy vw vh in
  if negb (forallb in_range32 [a; b; c; d]) then 2%N
  else if qlist_eqb [a; b; c; d] [o1; o2; o3; o4] then 0%N else 6%N.

(* documents: the sequence of MoveTo/LineTo/CubicTo/ClosePath/Rectangle calls *)
Definition pat_of (m : shape_op) : pat :=
  match m with
  | SRect x y w h => PRect x y w h
  | SOp true (OClose x y) => PLoose (OClose x y)   (* ClosePath() has no arguments *)
  | SOp true o => PExact o
  | SOp false o => PLoose o
  end.
Definition shape_op_vals (m : shape_op) : list Q :=
  match m with SRect x y w h => [x; y; w; h] | SOp _ o => op_vals o end.

Fixpoint shapes_ops (shs : list shape) : res (option (list shape_op)) :=
  match shs with
  | [] => Ok (Some [])
  | s :: r => let* a := shape_ops_opt f32 rnd32 cv_f32 s in
              match a with
              | None => Ok None
              | Some l => let* b := shapes_ops r in Ok (option_map (app l) b)
              end
  end.

(* the drawing context of the root's children: font-size of the root <svg>
   (default 1em of the initial 16px: svg.go:107, tree.go:220-226), viewport size
   in user units (the viewBox's, else the concrete one: svg.go:99-105) *)
Definition root_dims (fs : ouval) (vw vh : Q) : sdims :=
  mkdims (match fs with NoUV => 16 | SomeUV x => resolve_len f32 rnd32 x 16 16 end) vw vh.
Definition ushapes_ops (fs : ouval) (vw vh : Q) (shs : list ushape) : res (option (list shape_op)) :=
  shapes_ops (map (resolve_shape f32 rnd32 (root_dims fs vw vh)) shs).

Definition check_shapes (fs : ouval) (vw vh : Q) (ushs : list ushape) (tr : list tent) (r : dres) : N :=
  let '(DRes st is) := r in
  if (2 <=? st)%N then 4%N else
  match ushapes_ops fs vw vh ushs with
  | Ok (Some ms) =>
      if (st =? 1)%N then 5%N
      else if negb (forallb (fun m => forallb in_range32 (shape_op_vals m)) ms) then 2%N
      else match_code tr (map pat_of ms) is
  | Ok None => if (st =? 1)%N then 0%N else 5%N
  | _ => 1%N
  end.

(* <use> graphs: leaves are unit squares <rect x=n>, drawn in traversal order;
   a recursive <use> makes Parse fail *)
Definition leaf_match (n : N) (i : iop) : bool :=
  let '(IOp k a _ _ _ _ _) := i in (k =? 4)%N && qeqb (inject_Z (Z.of_N n)) a.
Fixpoint leaves_match (ns : list N) (is : list iop) : bool :=
  match ns, is with
  | [], [] => true
  | n :: nr, i :: ir => leaf_match n i && leaves_match nr ir
  | _, _ => false
  end.

Definition check_use (g : graph) (root : list item) (r : dres) : N :=
  let '(DRes st is) := r in
  if (2 <=? st)%N then 4%N else
  match document g root with
  | Ok (Some ns) => if (st =? 1)%N then 5%N else if leaves_match ns is then 0%N else 1%N
  | Ok None => if (st =? 1)%N then 0%N else 5%N
  | _ => 1%N
  end.

(* instances of <use>: Transform / SetLineWidth / Rectangle / path calls of the
   whole document (after the root's own two Transforms), against draw_uses *)
Definition pat_of_use (m : use_op) : pat :=
  match m with
  | UTrans a b c d e f => PTrans a b c d e f
  | ULineWidth w => PLineWidth w
  | UShape o => pat_of o
  end.
Definition use_op_vals (m : use_op) : list Q :=
  match m with
  | UTrans a b c d e f => [a; b; c; d; e; f]
  | ULineWidth w => [w]
  | UShape o => shape_op_vals o
  end.
Definition uses_ops (ds : list udef) (us : list use_inst) : res (option (list use_op)) :=
  draw_uses f32 rnd32 cv_f32 ds us.

Definition check_uses (ds : list udef) (us : list use_inst) (r : dres) : N :=
  let '(DRes st is) := r in
  if (2 <=? st)%N then 4%N else
  match uses_ops ds us with
  | Ok (Some ms) =>
      if (st =? 1)%N then 5%N
      else if negb (forallb (fun m => forallb in_range32 (use_op_vals m)) ms) then 2%N
      else match_code [] (map pat_of_use ms) is
  | Ok None => if (st =? 1)%N then 0%N else 5%N
  | _ => 1%N
  end.

(* reference graphs among gradients / patterns / markers / clip paths / masks:
   the property only says drawing terminates normally *)
Definition check_refs (r : dres) : N :=
  let '(DRes st _) := r in if (2 <=? st)%N then 4%N else 0%N.

Definition check (c : case) : N :=
  match c with
  | CPath cmds d tr r => check_path cmds d tr r
  | CBad d r => check_bad d r
  | CPoints arc inrange nums d ok out => check_points arc inrange nums d ok out
  | CViewbox p w h vx vy vw vh o1 o2 o3 o4 => check_viewbox p w h vx vy vw vh o1 o2 o3 o4
  | CShapes fs vw vh shs tr r => check_shapes fs vw vh shs tr r
  | CUse g root r => check_use g root r
  | CUses ds us r => check_uses ds us r
  | CRefs r => check_refs r
  end.

(* model observable, for replay files *)
Inductive mout :=
| MPath (lexed : res (option (list (N * list Q)))) (ops : res (option (list op))) (arcs : list arc_geo)
| MPoints (r : res (option (list Q)))
| MViewbox (a b c d : Q)
| MShapes (l : res (option (list shape_op))) (arcs : list arc_geo)
| MUse (r : res (option (list N)))
| MUses (whole : res (option (list use_op))) (instances : list (res (option (list use_op))))
| MNone.

Definition model_out (c : case) : mout :=
  match c with
  | CPath _ d tr r =>
      MPath (lex_path cv_f32 d) (pf d)
            match pf d, r with
            | Ok (Some ms), IOk is => arc_diags tr (map PExact ms) is
            | _, _ => []
            end
  | CBad d _ => MPath (lex_path cv_f32 d) (pf d) []
  | CPoints arc _ _ d _ _ => MPoints (parse_points cv_f32 arc d)
  | CViewbox p w h vx vy vw vh _ _ _ _ =>
      let '(a, b, c, d) := viewbox_transform f32 p w h vx vy vw vh in MViewbox a b c d
  | CShapes fs vw vh shs tr (DRes _ is) =>
      MShapes (ushapes_ops fs vw vh shs)
              match ushapes_ops fs vw vh shs with
              | Ok (Some ms) => arc_diags tr (map pat_of ms) is
              | _ => []
              end
  | CUse g root _ => MUse (document g root)
  | CUses ds us _ => MUses (uses_ops ds us) (map (draw_use f32 rnd32 cv_f32 ds) us)
  | CRefs _ => MNone
  end.

Fixpoint mismatches (i : N) (cs : list case) : list (N * N) :=
  match cs with
  | [] => []
  | c :: r => let k := check c in
              if N.eqb k 0 then mismatches (N.succ i) r else (i, k) :: mismatches (N.succ i) r
  end.
