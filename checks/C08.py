SPEC = {
    "id": "C08",
    "harness": "c08",
    "n": {"quick": 4000, "thorough": 60000},
    "shard": 250,
    "trusted_base": [
        "the ~300 leaf validators of css/validation are an ORACLE PARAMETER (`validate`) of the pipeline theorems: not verified, exercised by the metamorphic stream (impl-vs-impl)",
        "pa.ParseColor is an oracle input of the model (recorded per case by the harness from the real function)",
        "pr.Inherited / pr.InitialValues / the parent's computed values are inputs of the computed-style cases (owned by C04)",
        "computed value = declared value for px / % / 0 / auto lengths, border styles, colours and visibility (length_ of computed_values.go restated in Check/C08.v computed_len)",
        "/repo hook html/tree/verif_export_c08.go (VerifResolveVar)",
        "css/parser (tokenizer + declaration parser) output is the input of the model (C06)",
    ],
    "not_modelled": ["individual validators other than margin/padding/bleed/border-*/color/visibility", "shorthand expanders other than the four-sides ones, border and border-<side> (parameter `other_expander`)", "computer functions (C04)", "nested rules / selectors of PreprocessDeclarationsPrelude (C03)"],
    "codes": {"1": "PreprocessDeclarations output differs from the model (name, typed value, important, pending shorthand)",
              "2": "outside the modelled domain (skipped)",
              "3": "worker process died or hung on this input (process-fatal in the implementation)",
              "4": "computed style of the probe element differs from the model",
              "5": "resolveVar result differs from the model",
              "6": "metamorphic pair: two spellings of the same declaration(s) give different results",
              "7": "model ran out of fuel / panicked"},
    "theorems_for_kind": {
        "decls": "C08_bad_declarations_dropped_alone / C08_four_sides_spec / C08_generic_expander_resets",
        "computed": "C08_pending_invalid_falls_back / C08_resolve_var_total / C08_resolve_var_subst",
        "resolve": "C08_resolve_var_subst / C08_resolve_var_total / C08_cyclic_reference_is_invalid",
        "meta-case": "C08_spelling_irrelevant (hypothesis reads_projection for the validator of this property)", "meta-ws": "C08_spelling_irrelevant / C08_whitespace_comment_irrelevant",
        "meta-shorthand": "C08_four_sides_spec / shorthand = longhands", "meta-var": "C08_resolve_var_subst (var(--x) = its tokens)",
        "meta-bad": "C08_bad_declarations_dropped_alone", "meta-corpus": "C08_spelling_irrelevant / C08_bad_declarations_dropped_alone (regression pairs of corpus/C08/meta.tsv)",
    },
    "harness_timeout": 600,
    "tie_codes": (),  # a dead / hung worker (code 3) IS a failing input here: the implementation crashes on it
    "rule": "SplitMix64-seeded generators: declaration blocks mixing valid/invalid longhands and shorthands of the modelled families, unknown / prefixed / non-print properties, custom properties, var() uses, !important, comments, case noise; custom-property graphs (chains, diamonds, self loops, 2/3-cycles, undefined with/without fallback, var() nested in functions) resolved directly and through the computed style of a probe element; metamorphic pairs over a per-property table of valid values; corpus/C08 first; non-trivial = more than one compound or a non-empty result; distinct by Coq term",
}
MANIFEST = {
    "text": "Coq theorems over an executable model of PreprocessDeclarations' declaration pipeline parameterised by the leaf validators (bad declarations dropped alone; spelling irrelevance at pipeline level for every validator reading only the case/whitespace projection, proved to hold for the modelled validators; four-sides and generic-expander shorthand semantics; var() resolution = token substitution with fallback, total with cyclic references reported invalid, invalid pending values fall back to inherited/initial), compared by vm_compute with /repo on generated blocks and custom-property graphs on every run; metamorphic impl-vs-impl spelling variants for all properties",
    "note": "Trusted: Coq kernel (vm_compute), Go harness, hook html/tree/verif_export_c08.go, pa.ParseColor and C04's tables as oracle inputs. Partial: the individual validators are a parameter of the theorems (the hypothesis reads_projection is proved for the modelled ones and tested metamorphically for the ~290 others); the tokenizer-level part of spelling (text -> tokens) is C06's.",
    "technique": "Coq proof over executable model + vm_compute correspondence with the Go implementation + metamorphic testing",
}
