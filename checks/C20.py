SPEC = {
    "id": "C20",
    "harness": "c20",
    "n": {"quick": 2400, "thorough": 30000},
    "shard": 160,
    "skip_codes": (2, 4),
    "trusted_base": [
        "/repo hook css/parser/verif_export_c20.go (hash id flag, string/url error flags, parse-error kind)",
        "Go-side projection of tokens to position-free terms (go/cmd/c20/dump.go) and the Go-side round-trip comparison `norm(Tokenize(Serialize(ts))) == norm(ts)`",
        "valid UTF-8 sources only: model strings are code-point lists (utf8 encode/decode of Go's range loops is trusted)",
    ],
    "not_modelled": ["compound round trip of DECLARATIONS is evaluated per case, not proved (C20_compound_roundtrip_statement)", "Serialize of lists containing parse-error tokens (outside the quantifier; the model ports it but it is not compared)",
                     "float32 value of numeric tokens (function of the representation, strconv)"],
    "codes": {"1": "Go round trip failed: Tokenize(Serialize(ts)) differs from ts on an observable the property fixes",
              "2": "token list not error free (skipped)",
              "3": "specification re-tokenisation of Go's serialization differs from ts",
              "4": "model bytes differ from Go's Serialize but both round-trip (harmless rewrite, skipped)",
              "5": "specification tokenizer and parser.Tokenize disagree on the source text",
              "6": "serializer model panics / does not round-trip where Go does",
              "7": "token list returned by parser.Tokenize is outside wf_tokens (the domain of theorem C20_roundtrip)",
              "8": "Go compound round trip failed: a parsed rule / declaration serialized by its serializeTo parses back to something else (kind, at-keyword / name, prelude / value, block present or absent and its contents, !important)",
              "9": "model of the compound serializers (Css/SerCompound.v) returns other bytes than QualifiedRule / AtRule / Declaration .serializeTo",
              "10": "specification reading (RetokSpec.tokenize + SerCompound.read_back) of the serialized compound differs from the compound"},
    "theorems_for_kind": dict({k: "C20_roundtrip (norm (tokenize (serialize ts)) = norm ts for all wf_tokens ts), C20_bad_pairs_complete" for k in
                               ["corpus", "pairs", "triples", "contents", "contents-random", "soup", "text", "suite"]},
                              compound="C20_rule_tokenizes_back + C20_compound_roundtrip_partial (a well-formed rule serialized by the model of its serializeTo tokenizes back to at-keyword, prelude, block or `;` and reads back as itself), C20_empty_block_is_not_statement; declarations: C20_compound_roundtrip_statement evaluated on the case"),
    "rule_compound": "compound stream: exhaustive at-keyword x separator x first prelude token x rule end (`;`, `{}`, `{ }`, filled / unclosed block, end of input), last prelude token x block, declaration name x first / last value token x !important spelling, plus 30 000 random stylesheets / declaration lists / block contents (nested rules, empty blocks, at-rules with and without blocks) parsed by ParseStylesheet / ParseRuleList / ParseDeclarationList / ParseBlocksContents / ParseOneDeclaration in the four skip modes; contents of rules parsed again; every rule / declaration with error-free tokens is serialized by its serializeTo and parsed back",
    "rule": "one SplitMix64 seed; Go-side search over all adjacent token pairs / triples (kind x spelling, exhaustive), identifier/string/url/unit contents over all code-point classes (exhaustive to length 2-3, random to 9), nested soups, random text, the css-parsing-tests inputs and their single-rune deletions (1.7 M inputs, every Go round-trip failure is a case); a seeded reservoir sample of the passing inputs is evaluated by the Coq model; non-trivial = at least two tokens or a serialization different from the source; distinct by (mode, source)",
}
MANIFEST = {
    "text": "Coq theorems, all inputs: (parsed rules: C20_rule_tokenizes_back: a serialized qualified rule / at-rule tokenizes back to its at-keyword, prelude and {} block or `;`; declarations and the reading back by a specification parser are evaluated per case on ~118 000 compounds parsed by /repo per run) for every source text whose tokenisation has no parse-error token, the serializer model returns and its output tokenizes back to the same component values up to comments/positions (C20_roundtrip_source; C20_roundtrip over all well-formed token lists; C20_bad_pairs_complete: the separator logic is complete for all adjacent tokens; per-consumer round trips), over an executable model of css/parser/serialize.go and a specification-level CSS Syntax 3 tokenizer; both are tied to /repo on every run: Go's own Tokenize(Serialize(ts)) round trip on ~1.7 M generated inputs, model bytes = Serialize bytes and specification tokenizer = parser.Tokenize on a sample, evaluated inside Coq (vm_compute)",
    "note": "Trusted: Coq kernel (vm_compute), Go harness + hook css/parser/verif_export_c20.go, UTF-8 codec (model strings are code points), the hand-ported bad-pairs table (tied by the exhaustive pairs stream). Not modelled: Serialize of lists containing parse-error tokens (outside the quantifier), float32 values.",
    "technique": "Coq proof over executable model + vm_compute correspondence with the Go implementation",
}
