SPEC = {
    "id": "C02",
    "harness": "c02",
    "n": {"quick": 5000, "thorough": 60000},
    "tie_codes": (),
    "shard": 200,
    "trusted_base": [
        "go/pagedoc (text document generator: the source items of every inline formatting context are those the generator wrote; HTML escaping; attribution of line boxes to elements by id)",
        "golang.org/x/net/html parsing of the generated markup (no implied end tags are triggered by construction)",
        "/repo hook html/document/verif_export_c02.go (page box of a document.Page)",
        "vlib/render recording backend (DrawText events per page)",
    ],
    "not_modelled": ["hyphenation (inserts characters)", "text-transform", "bidi reordering", "text-overflow / block-ellipsis",
                     "running elements and position: fixed (kept out of the streams)", "explicitly sized boxes that overflow (kept out)",
                     "list markers and generated content other than br::before (excluded from the observed text)"],
    "codes": {
        "1": "bo.ProcessWhitespace differs from the model (texts or returned followingCollapsibleSpace)",
        "3": "a paragraph's line boxes do not carry its text exactly once and in order (character lost, duplicated, reordered or invented; collapsible space doubled or dropped inside a line; preserved white space changed)",
        "4": "in-flow paragraphs out of document order or split",
        "8": "a collapsible space vanished inside a line (everything else in the paragraph matches)",
        "9": "a preserved line feed / <br> did not break the line (everything else matches)",
        "7": "idempotence / the pre-line specification (theorems of Properties/C02.v) fail on a generated text",
        "5": "content units of a paginated flow not conserved",
        "6": "text boxes of a page and DrawText calls do not match one to one",
    },
    "theorems_for_kind": {
        "ws": "C02_whitespace_spec / C02_whitespace_idempotent (the model is a port; equality)",
        "para": "C02_paginate_conserves / C02_fragment_step_conserves / C02_rewind_resumes_at_first_removed_child / C02_row_split_cell_conserved / C02_whitespace_preserves_non_space",
        "order": "C02_paginate_conserves (flow order)",
        "units": "C02_paginate_conserves",
        "draw": "C02_drawn_once",
    },
    "rule": "three SplitMix64-seeded streams: ws = random trees of inline boxes over the five white-space modes (alphabet of blanks, tabs, CR, LF, letters) run through bo.ProcessWhitespace; text = random text documents (nested spans with white-space modes, br, inline-blocks, floats, abspos, blocks in inlines, block-level floats / abspos boxes between sibling blocks, lists, tables with header/footer groups, break-*, orphans/widows, small pages; document profiles: avoid-heavy, one-line blocks, `rewind` = both plus out-of-flow siblings on pages of 3-5 lines), one case per inline formatting context (tagged with a structural diagnosis: how the observed text differs, where the boxes of the element and of the enclosing out-of-flow boxes are) + one order case + one draw case per page; units = the C12 document stream; corpus first; distinct by Coq term",
}
MANIFEST = {
    "text": "Coq theorems: conservation of any chain of fragmentation steps whose resume point matches what was placed (incl. the two rewind operations), conservation of the pagination model, the white-space phase-I model (port of ProcessWhitespace) is idempotent, never touches non-space characters and equals the CSS Text 3 rules for the five modes, one DrawText per visible text box; tied per run by comparing bo.ProcessWhitespace with the model and by checking, inside Coq, that the line boxes of every generated paragraph carry the model's text exactly once and in order and that text boxes match DrawText calls",
    "note": "Trusted: Coq kernel, Go harness and generator, x/net/html. Partial: line breaking and float/abspos fragmentation are covered by the tie only (the rewind among siblings with out-of-flow boxes and the split of a table row are modelled in Layout/Fragment.v); the known findings (text lost or duplicated around floats / abspos boxes broken at a page end, dropped table header groups, four white-space / line-break deviations) are reported as KNOWN-FINDING lines, each matched by the structural trigger of its defect.",
    "technique": "Coq proof over executable model + vm_compute correspondence with the Go implementation",
}
