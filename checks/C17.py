SPEC = {
    "id": "C17",
    "harness": "c17",
    "n": {"quick": 4000, "thorough": 60000},
    "shard": 250,
    "tie_codes": (3,),   # bit-exact comparison failed but the output is still within 2^-10 of the exact-rational spec
    "trusted_base": [
        "axioms of Coq.Reals (ClassicalDedekindReals.sig_forall_dec, sig_not_dec, functional_extensionality_dep) for the two trigonometric theorems over R only",
        "Base/F32.v rounding model (validated on every run by the CRound/CArith cases against Go's float32)",
        "math.Cos/Sin/Tan values are inputs of the model (oracle computed by the harness exactly as the code does: angle*pi/180 in float32, trig in float64, rounded to float32)",
        "/repo hook svg/verif_export.go (VerifAggregateTransform, VerifViewboxTransform)",
    ],
    "not_modelled": ["math.Cos/Sin/Tan themselves", "SVG number lexing (C18)", "CSS angle-unit conversion in css/validation (covered end to end in the CCss stream through the render harness)"],
    "codes": {"1": "implementation output differs bit-for-bit from the float32 instance of the model", "2": "model value outside binary32 range (skipped)"},
    "theorems_for_kind": {
        "svg": "C17_svg_transform_spec", "svg-rejected": "C17_svg_transform_spec (a valid transform list must be mapped to its matrix)",
        "ops": "C17_inplace_ops_are_right_multiplication", "mulchain": "C17_mul_assoc / prod", "invert": "C17_invert_two_sided",
        "css": "C17_css_matrix_spec",
    },
    "rule": "SplitMix64-seeded generator over the matrix API (Mul chains, Mul3, Invert incl. singular, Apply, Determinant, in-place Translate/Scale/Rotate/Skew/LeftMultBy/RightMultBy sequences), SVG transform attributes (all functions, optional arguments, separators, case) and viewBox/preserveAspectRatio triples; non-trivial = more than one operation or a rounding that is not the identity; distinct by Coq term",
}
MANIFEST = {
    "text": "Coq theorems (group laws, Invert two-sided, in-place ops = right multiplication, css_matrix = T(origin).prod(spec f_i).T(-origin), SVG aggregate = product of SVG 1.1 matrices incl. skewX/skewY placement) over the exact-rational instance of a model whose float32 instance is compared bit-for-bit with /repo on generated inputs on every run",
    "note": "Trusted: Coq kernel (vm_compute), Reals axioms for the two trig lemmas, F32 rounding model (validated each run), Go harness + hook svg/verif_export.go; math.Cos/Sin/Tan are oracle inputs. Partial: trig functions themselves and inexact-arithmetic error bounds are not proved.",
    "technique": "Coq proof over executable model + vm_compute correspondence with the Go implementation",
}
