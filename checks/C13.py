SPEC = {
    "id": "C13",
    "harness": "c13",
    "n": {"quick": 600, "thorough": 9000},
    "shard": 70,
    "tie_codes": (),
    "trusted_base": [
        "/repo hook html/layout/verif_export_c13.go (VerifC13FixedTableLayout, VerifC13ResolveTable)",
        "Base/F32.v rounding model (validated by C17's CRound/CArith cases)",
        "fonts: Ahem from /repo/resources_test (cell contents only influence the inputs of the modelled functions: column widths, natural cell heights)",
        "projection in go/cmd/c13: inputs of fixedTableLayout as the code resolved them (column / cell used widths), GridX/Colspan/Rowspan from a second BuildFormattingStructure of the same document, a cell's natural height = final border height minus the padding added by the row-height step (vertical-align: top in the generated documents)",
        "percentage resolution, block layout of cell contents, preferred widths and the auto width distribution are not modelled (C10/C11 and the contract predicate)",
    ],
    "not_modelled": ["autoTableLayout / distributeExcessWidth / tableAndColumnsPreferredWidths (contract predicate only)",
                     "collapsed borders conflict resolution", "RTL tables", "page breaks inside tables", "baseline alignment of cells (vertical-align: baseline)",
                     "column / column group boxes' own geometry"],
    "codes": {"1": "column positions / cell x / width / border-box width / kept cells differ from the float32 model",
              "3": "column widths violate the contract: negative width, columns + spacing != used table width, or used width < specified width",
              "4": "fixedTableLayout's column widths or table width differ from the float32 model",
              "5": "implementation panicked where the model returns", "6": "model panics where the implementation returned",
              "8": "row / row group positions or heights, cell y or final cell heights differ from the float32 model",
              "9": "auto layout counted border-spacing only for the columns in which a cell originates",
              "10": "a cell does not reach the bottom edge of the last row it spans",
              "12": "auto layout made the table narrower than its specified width"},
    "theorems_for_kind": {
        "fixed": "C13_fixed_layout_fills", "corpus-fixed": "C13_fixed_layout_fills",
        "layout-horiz": "C13_column_positions / C13_cell_horizontal / C13_columns_adjacent / C13_columns_disjoint",
        "layout-vert": "C13_rowspan_heights_spec", "layout-widths": "C13_auto_layout_contract_partial (hypotheses of the grid theorems)",
        "corpus-horiz": "C13_cell_horizontal", "corpus-vert": "C13_rowspan_heights_spec", "corpus-widths": "C13_auto_layout_contract_partial",
    },
    "rule": "SplitMix64-seeded tables: 1-3 row groups (thead/tbody/tfoot) x 1-4 rows x 0-6 cells, colspan 1-4, rowspan 0/2/3/5 (overflowing the group), "
            "col / colgroup with span and widths, caption, table-layout fixed|auto, width auto|px|%, border-spacing in half pixels, 1 in 8 border-collapse, "
            "cell padding / border / width / height, row heights, Ahem words as content; 1 in 3 documents goes to the fixedTableLayout unit stream, the others are "
            "laid out by layout.Layout and give one horizontal, one vertical and one column-width case each; corpus/C13/*.html first; distinct by Coq term",
}
MANIFEST = {
    "text": "Coq theorems over a Gallina port of the table geometry of html/layout/tables.go (fixedTableLayout; column positions; cell x/width with "
            "colspan clipping; row positions, row heights from the cells ending in each row, stretching of row-spanning cells; row group heights) and of the "
            "grid-slot assignment of wrapTable (shared with C09): column positions equal the closed form x0 + (j+1) spacing + previous widths, hence cells "
            "starting/ending in the same column share that edge, a spanning cell is exactly its columns plus inner spacing, adjacent columns are one "
            "border-spacing apart, disjoint column ranges do not overlap; every cell spans exactly from the top of its first row to the bottom of its "
            "last row and no row has a negative height; fixed layout fills the used width, never below the specified width, no negative column. The float32 "
            "instance of the same definitions is compared bit for bit with /repo on generated tables on every run; the auto width distribution is only "
            "checked against the contract predicate (columns + spacing = used width >= specified width, no negative width).",
    "note": "Partial: autoTableLayout/distributeExcessWidth are not modelled (C13_auto_layout_contract_statement), two known findings there (spacing of "
            "columns without originating cell; table shrunk below its specified width). Full pairwise disjointness of slots is refuted for colspan-over-rowspan "
            "markup (see C09). Vertical theorems cover separated and collapsed borders alike but not baseline alignment, RTL, or tables split across pages. "
            "Trusted: Coq kernel (vm_compute), F32 rounding model, harness projection, hooks html/layout/verif_export_c13.go and html/boxes/verif_export_c09.go.",
    "technique": "Coq proof over executable model + vm_compute correspondence with the Go implementation",
}
