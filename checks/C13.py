SPEC = {
    "id": "C13",
    "harness": "c13",
    "n": {"quick": 600, "thorough": 9000},
    "shard": 70,
    "tie_codes": (),
    "trusted_base": [
        "/repo hooks html/layout/verif_export_c13.go (VerifC13FixedTableLayout, VerifC13ResolveTable) and verif_export_c13_auto.go (VerifC13AutoTableLayout: box tree and layout context built as Layout does, percentages of the first table wrapper / table resolved against the page width, tableAndColumnsPreferredWidths' result copied, autoTableLayout run)",
        "Base/F32.v rounding model (validated by C17's CRound/CArith cases)",
        "fonts: Ahem from /repo/resources_test (cell contents only influence the inputs of the modelled functions: column widths, natural cell heights)",
        "grid cases (CGrid): the table STRUCTURE (row groups in document order with their tag, rows, cells with their colspan / rowspan attributes) is taken from the generator's specification of the document (corpus files: from the HTML parse by golang.org/x/net/html), never from the boxes; it is compared with GridX/Colspan/Rowspan and the IsHeader/IsFooter order of the table box returned by BuildFormattingStructure",
        "structural tags used by the known-finding matchers are computed in go/cmd/c13 by a second statement of the slot rule; its grid width and number of columns with an originating cell are re-derived by the proved model on every case (code 15)",
        "projection in go/cmd/c13: inputs of fixedTableLayout as the code resolved them (column / cell used widths), GridX/Colspan/Rowspan from a second BuildFormattingStructure of the same document (tied to the structure by the CGrid case of the same document), a cell's natural height = final border height minus the padding added by the row-height step (vertical-align: top in the generated documents)",
        "percentage resolution, block layout of cell contents and the preferred widths (tableAndColumnsPreferredWidths: min-/max-content widths, intrinsic percentages, constrainedness, total spacing) are not modelled: they are inputs of the auto layout model read from /repo",
    ],
    "not_modelled": ["tableAndColumnsPreferredWidths and the colspan calls of distributeExcessWidth inside it (contract predicate only; autoTableLayout and its top-level distributeExcessWidth ARE modelled)",
                     "collapsed borders conflict resolution", "RTL tables split across pages (paged stream is ltr only; one-page rtl tables ARE modelled: column positions from the right edge, cell on its last column)", "page breaks inside tables: which rows go to which page, repeated header / footer groups, the vertical geometry of a fragment (the horizontal geometry of every fragment IS compared)", "baseline alignment of cells (vertical-align: baseline)",
                     "column / column group boxes' own geometry"],
    "codes": {"1": "column positions / cell x / width / border-box width / kept cells differ from the float32 model",
              "3": "column widths violate the contract: negative width, columns + spacing != used table width, or used width < specified width",
              "4": "fixedTableLayout's column widths or table width differ from the float32 model",
              "5": "implementation panicked where the model returns", "6": "model panics where the implementation returned",
              "8": "row / row group positions or heights, cell y or final cell heights differ from the float32 model",
              "9": "auto layout counted border-spacing only for the columns in which a cell originates",
              "10": "a cell does not reach the bottom edge of the last row it spans",
              "12": "auto layout made the table narrower than its specified width",
              "13": "GridX / Colspan / Rowspan of a cell, or the order / header / footer role of the row groups, differ from the slot model run on the table structure (row groups x rows x cells with their span attributes)",
              "14": "the auto layout did not use the number of columns of the grid computed from the table structure",
              "15": "harness defect: the structural facts computed for the tags differ from the model's",
              "16": "autoTableLayout's column widths or used table width differ from the float32 model run on the preferred widths the implementation computed",
              "17": "the preferred widths satisfy the hypotheses of C13_auto_layout_fills but columns + total spacing differ from the used table width",
              "18": "table split across pages: after the whole document is laid out, the ColumnPositions of the fragment on one page are not the column positions of that fragment's own content box and column widths",
              "19": "table split across pages: a cell of a fragment is not on the columns of its fragment (PositionX / width / border-box width)",
              "20": "auto layout: a laid-out cell has a negative used content width (its columns are narrower than its own padding + borders)",
              "21": "auto layout: a cell's used content width is smaller than the min-content width of its content (the widest word it holds, from the generator's specification of the document)",
              "22": "a width / position / size of the laid-out table, of the preferred widths or of what autoTableLayout / fixedTableLayout returned is NaN or infinite (not representable as Q: the table is reported, never skipped)",
              "23": "fixed layout: a laid-out cell has a negative used content width",
              "24": "direction: rtl table: the column positions (running from the right edge of the content box) or a cell's PositionX (the position of the LAST column it spans) / width / border-box width differ from the float32 model: the cell does not cover exactly its grid slots"},
    "theorems_for_kind": {
        "fixed": "C13_fixed_layout_fills", "corpus-fixed": "C13_fixed_layout_fills",
        "fixed-grid": "C13_table_grid / C13_slots / C13_group_without_rowspan_packed", "layout-grid": "C13_table_grid / C13_slots / C13_group_without_rowspan_packed",
        "corpus-grid": "C13_table_grid / C13_slots",
        "layout-auto": "C13_auto_layout_fills / C13_distribute_excess_conserves", "corpus-auto": "C13_auto_layout_fills / C13_distribute_excess_conserves",
        "paged-horiz": "C13_fragments_positions / C13_fragment_column_positions / C13_cell_horizontal",
        "paged-grid": "C13_table_grid / C13_slots", "corpus-paged-grid": "C13_table_grid / C13_slots",
        "corpus-paged-horiz": "C13_fragments_positions / C13_fragment_column_positions / C13_cell_horizontal",
        "layout-horiz": "C13_column_positions / C13_cell_horizontal / C13_columns_adjacent / C13_columns_disjoint",
        "layout-horiz-rtl": "C13_column_positions_rtl / C13_cell_horizontal_rtl", "corpus-horiz-rtl": "C13_column_positions_rtl / C13_cell_horizontal_rtl",
        "layout-vert": "C13_rowspan_heights_spec", "layout-widths": "C13_auto_layout_contract_partial (hypotheses of the grid theorems)",
        "layout-cells": "C13_cell_content_fits (a cell on columns sized for its outer min-content width holds its content; no negative used width)",
        "corpus-cells": "C13_cell_content_fits",
        "layout-nonfinite": "C13_auto_layout_fills / C13_column_positions (finite inputs give finite widths and positions: every value of the model is a Q)",
        "paged-nonfinite": "C13_fragment_column_positions", "fixed-nonfinite": "C13_fixed_layout_fills", "corpus-nonfinite": "C13_auto_layout_fills",
        "corpus-paged-nonfinite": "C13_fragment_column_positions", "corpus-fixed-nonfinite": "C13_fixed_layout_fills",
        "corpus-horiz": "C13_cell_horizontal", "corpus-vert": "C13_rowspan_heights_spec", "corpus-widths": "C13_auto_layout_contract_partial",
    },
    "rule": "SplitMix64-seeded tables: 1-3 row groups (thead/tbody/tfoot in any document order) x 1-4 rows x 0-6 cells, colspan 1-4, rowspan 0/2/3/5 (overflowing the group); "
            "1 in 4 tables is a grid stress table: 2-4 row groups incl. repeated thead/tfoot, 2-4 rows each, every second cell row-spanning, out-of-range span attributes (colspan 0/-1/-3, rowspan -1/-2/65535/70000); "
            "every document gives one grid case (structure vs GridX/Colspan/Rowspan/group order, column count of the auto layout); "
            "col / colgroup with span and widths, caption, table-layout fixed|auto, width auto|px|%, border-spacing in half pixels, 1 in 8 border-collapse, "
            "cell padding / border / width / height, row heights, Ahem words as content; 1 in 3 documents goes to the fixedTableLayout unit stream, the others are "
            "laid out by layout.Layout and give one grid, one horizontal, one vertical, one column-width and one autoTableLayout case each; "
            "3 in 15 documents come from the excess-width stream (specified width mostly above the max-content width; every column drawn from: px width on its <col>, px width on its cells, "
            "percentage, nothing, crossed with 'all cells empty'; 2 in 3 of these tables have only constrained columns, so that the third, fourth and fifth group of distributeExcessWidth and both "
            "outcomes of an undistributed excess are reached); 2 in 15 documents are paged: 5-14 rows per tbody (+ thead / tfoot) on pages 120-300px high whose content boxes differ "
            "(@page :first / :left / :right margins, another size for the first page; 1 in 6 identical pages), laid out completely, then ONE case with the horizontal geometry of the table "
            "fragment of EVERY page (ColumnPositions, cells) against the model run on that fragment's own content box and column widths; 3 in 10 of the laid-out (one page) tables of every stream carry direction: rtl (drawn after the table, so colspans are as frequent as in ltr tables) and give a CHorizRtl case; corpus/C13/*.html first; distinct by Coq term",
}
MANIFEST = {
    "text": "Coq theorems over a Gallina port of the table geometry of html/layout/tables.go (fixedTableLayout; column positions; cell x/width with "
            "colspan clipping; row positions, row heights from the cells ending in each row, stretching of row-spanning cells; row group heights) and of the "
            "grid-slot assignment of wrapTable (shared with C09) run on the table structure (row groups x rows x cells with their span attributes, header / footer "
            "extraction, clamping of the attributes): every row group is assigned on its own, a group without row-spanning cell and the first row of every group are "
            "laid side by side from column 0, no cell covers the anchor column of a later one; column positions equal the closed form x0 + (j+1) spacing + previous widths, hence cells "
            "starting/ending in the same column share that edge, a spanning cell is exactly its columns plus inner spacing, adjacent columns are one "
            "border-spacing apart, disjoint column ranges do not overlap; every cell spans exactly from the top of its first row to the bottom of its "
            "last row and no row has a negative height; fixed layout fills the used width, never below the specified width, no negative column. The float32 "
            "instance of the same definitions is compared bit for bit with /repo on generated tables on every run, and the GridX / Colspan / Rowspan of every cell "
            "with the slot model run on the document's table structure (nothing read back from the implementation); autoTableLayout and distributeExcessWidth are modelled given the preferred widths "
            "(theorem: columns + total spacing = used width in every branch; refutation: used width >= specified width) and compared bit for bit with /repo; "
            "the preferred widths themselves are only checked against the contract predicate (columns + spacing = used width >= specified width, no negative width) "
            "and through the cells they produce: every laid-out cell must have a non-negative used content width and, in the auto layout, at least the width of the widest word it holds "
            "(theorem C13_cell_content_fits: equivalent to its columns covering its outer min-content width, both used borders included; collapsed-border tables with per-side border widths are generated for it); "
            "a NaN or infinite width / position anywhere in a laid-out table is a violation (never skipped).",
    "note": "Partial: tableAndColumnsPreferredWidths is not modelled (C13_auto_layout_contract_statement stays a statement about the whole algorithm), known findings (negative cell width in the fixed layout; cells below their min-content width with percentage columns or under a colspan over px columns; spacing of "
            "columns without originating cell, in the preferred widths; table shrunk below its specified width, proved of the model: C13_auto_layout_keeps_specified_width_refuted). Full pairwise disjointness of slots is refuted for colspan-over-rowspan "
            "markup (see C09). Vertical theorems cover separated and collapsed borders alike but not baseline alignment, RTL, or the vertical geometry / row distribution of tables split across pages (the horizontal geometry of every page's fragment is modelled: slice headers into a store, C13_fragments_positions). "
            "Trusted: Coq kernel (vm_compute), F32 rounding model, harness projection, hooks html/layout/verif_export_c13.go, html/layout/verif_export_c13_auto.go.",
    "technique": "Coq proof over executable model + vm_compute correspondence with the Go implementation",
}
