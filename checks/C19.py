SPEC = {
    "id": "C19",
    "harness": "c19",
    "n": {"quick": 1400, "thorough": 24000},
    "shard": 100,
    "tie_codes": (),   # every disagreement code of Check/C19.v is a failing input (strings are fully determined by the specification)
    "trusted_base": [
        "Go harness go/cmd/c19: dump of the parsed counters.CounterStyleDescriptors records (all fields exported, no hook in /repo) and, for documents, of the computed counter-reset/-set/-increment/display/content/list-style-type values of each element and pseudo-element (tree.StyleFor.Get); projection of BuildFormattingStructure's box tree on the texts of the ::marker/::before/::after text boxes in tree order",
        "the table given to the model is the closure of the rendered style under extends/fallback plus decimal (computed by the harness from the parsed records)",
        "strings are code point lists (Go strings of valid UTF-8); pad counts code points (grapheme clusters are not modelled: the generators use no combining marks)",
        "descriptor parsing (css/validation/descriptors.go) is checked against the record the generator intended when writing the rule (grammar of css-counter-styles-3 re-implemented in the generator), not against a Coq model",
        "Go int is modelled by Z; theorems and cases cover every int64 except MinInt64 (utils.Abs overflows; counter values coming from CSS are clamped to int32 by UpdateCounters)",
    ],
    "not_modelled": ["symbols() with images", "speak-as", "float: footnote counter increments", "target-counter()/target-counters(), string-set, bookmark-label", "page-based counters (page, pages) and margin boxes",
                     "the cascade and the value parsers of counter-reset/-set/-increment/content/list-style-type (their computed values are inputs of the scopes model)",
                     "RenderMarker on symbols()/string styles is tied (model = implementation) and proved total; its specification theorem is stated for named styles only"],
    "codes": {"1": "text produced by the implementation differs from the model (which is proved equal to the CSS Counter Styles / CSS Lists specification)",
              "3": "implementation panicked where the model (proved total) returns a string",
              "4": "model panics / runs out of fuel where the implementation returned",
              "5": "descriptor record parsed from the @counter-style rule differs from the record the grammar defines",
              "6": "number of ::marker/::before/::after text boxes differs from the model"},
    "theorems_for_kind": {
        "ua-boundary": "C19_render_value_spec / C19_render_value_total", "ua-interval": "C19_render_value_spec (with C19_numeric_positional, C19_alphabetic_bijective, C19_additive_spec, C19_cyclic_spec)",
        "ua-marker": "C19_marker_spec", "gen-render": "C19_render_value_spec, C19_extends_spec, C19_render_value_total",
        "fn-render": "C19_render_value_total (RenderValueStyle / RenderMarker on symbols() and string styles)",
        "parse": "css-counter-styles-3 descriptor grammar (generator) -- feeds the table of C19_render_value_spec",
        "doc": "C19_build_spec / C19_scopes_spec / C19_counters_outermost_first / C19_pseudo_list_item_marker", "corpus-render": "C19_render_value_spec / C19_render_value_total", "corpus-doc": "C19_build_spec",
    },
    "rule": "corpus/C19/*.case first (witnesses of the repaired defects); every predefined style of html5_ua.css x {range boundaries, weights, symbol-count boundaries, 0, +-1, +-(2^31-1), +-2^31, 2^53+1, +-(2^63-1)} through RenderValue and RenderMarker; all of [-300,3000] for decimal, lower-roman, upper-alpha, hebrew and 6 rotating predefined styles (all in the thorough tier); SplitMix64-seeded sets of 1-6 @counter-style rules (all systems, 0-10 symbols incl. non-ASCII and empty, ranges with infinite, pad, negative, prefix/suffix, fallback/extends graphs incl. cycles, unknown targets, names equal to system keywords or predefined styles; one quarter with malformed declarations) installed through real CSS text and rendered for [-14,34] + boundaries + big values; symbols()/string/unknown style references; intended-vs-parsed descriptor records; random ol/ul/li/div/span documents with counter-reset/-set/-increment classes on elements and ::before/::after, display none/list-item, li::marker content, list-style-type; one third of the documents with ::before/::after pseudo-elements that are list items themselves (display: list-item, own ::marker generated after their own counter-reset/-set/-increment and implicit list-item increment; list-style-type counter styles / symbols() / strings inherited from body and classes; ::marker content); non-trivial = the output is not the plain decimal string / a document with at least two generated texts; distinct by Coq term",
}
MANIFEST = {
    "text": "Coq theorems over executable models of css/counters/counters.go and of the counter bookkeeping of html/boxes/build.go: the six Counter Styles algorithms equal their mathematical definitions for every symbol list and every integer (cyclic with mathematical mod, fixed, symbolic, alphabetic = unique bijective base-L digits, numeric = unique positional digits without leading zero, additive = the specification's greedy decomposition whose weights sum to the value); RenderValue/RenderMarker equal 'generate a counter representation' (range incl. auto bounds, negative sign, pad, fallback chain with unknown/loop -> decimal, extends with unknown/cycle -> decimal) for every well-formed rule table, name and int64 value, and the specification is proved deterministic (counter_repr T n v s -> RenderValue = Ok s); they never panic and terminate on every table (cycles included); the name->stack / per-depth-set traversal state always denotes the CSS 2.1/Lists instance frames (reset replaces the sibling-created instance, set/increment act on the innermost or create one, counters() outermost first, int32 clamping; ::before/::after act as first/last child, a list-item pseudo-element's ::marker is generated after its own counter updates) and its slice operations never panic. The models are compared with /repo on generated inputs on every run.",
    "note": "Trusted: Coq kernel (vm_compute), Go harness go/cmd/c19 (record dump, style dump, box-tree projection, reachable-table closure), generator's re-implementation of the descriptor grammar for the parse cases. No axioms (21 theorems closed under the global context). Partial: grapheme clusters approximated by code points; cascade/value parsing of counter-* properties are inputs; marker specification for symbols()/string references not stated (tied + totality only); MinInt64 excluded.",
    "technique": "Coq proof over executable model + vm_compute correspondence with the Go implementation",
}
