SPEC = {
    "id": "C19",
    "harness": "c19",
    "n": {"quick": 1400, "thorough": 20000},
    "shard": 100,
    "trusted_base": [
        "Go harness go/cmd/c19: dump of the parsed CounterStyleDescriptors records (all fields exported, no hook) and of the computed counter-reset/-set/-increment/display/content values of each element (styleFor.Get), projection of the box tree on the texts of ::marker/::before/::after text boxes",
        "the sub-table given to the model is the closure of the rendered style under extends/fallback plus decimal (computed by the harness)",
        "strings are compared as code point lists; pad counts code points (grapheme clusters are not modelled: the generators use no combining marks)",
    ],
    "not_modelled": ["symbols() with images", "speak-as", "float: footnote counter", "target-counter()/target-counters(), string-set, bookmark-label", "page-based counters (page, pages)", "the cascade and the value parsers of counter-reset/-set/-increment/content/list-style-type (their computed values are inputs of the model)"],
    "codes": {"1": "text produced by the implementation differs from the model", "3": "implementation panicked where the model (proved total) returns a string",
              "4": "model panics / out of fuel where the implementation returned", "5": "descriptor record parsed from the @counter-style rule differs from the record the grammar defines",
              "6": "number of ::marker/::before/::after text boxes differs"},
    "theorems_for_kind": {},
    "rule": "SplitMix64-seeded generators",
}
MANIFEST = {
    "text": "wip",
    "note": "wip",
    "technique": "Coq proof over executable model + vm_compute correspondence with the Go implementation",
}
