_T = "C06_blocks_spec / C06_consume_token_spec (tokens), C06_tokenize_total (no panic), C06_positions_spec (line / byte column), C06_important_spec / C06_declaration_draft_spec / C06_decl_list_compositional / C06_rule_list_compositional / C06_blocks_contents_compositional / C06_blocks_item_spec (parsers), C06_nth_spec (An+B)"
SPEC = {
    "id": "C06",
    "harness": "c06",
    "n": {"quick": 5000, "thorough": 60000},
    "shard": 500,
    "tie_codes": (),   # every code is a failing input here: code 3 = the implementation PANICKED / hung where the proved-total model returns a value
    "trusted_base": [
        "strconv.ParseFloat/ParseInt, regexp, unicode/utf8 of the Go standard library (the float32 value of numeric tokens is not compared; the representation string and the integer flag are)",
        "/repo hook css/parser/verif_export_c06.go (read-only accessors of unexported token flags and parse-error kinds)",
        "the model works on the code points of the valid UTF-8 input (harness prints the runes of the Go string); byte columns are recomputed from UTF-8 widths",
        "Base/F32.v rounding model for numberVal.Int() in ParseNth (validated by C17's CRound cases)",
    ],
    "not_modelled": ["invalid UTF-8 input", "ParseError.Message strings", "float32 value of numeric tokens (ValueF)",
                     "colors.go (ParseColor)", "goroutine stack depth (the recursive tokenizer overflows the stack at ~10^6 nesting levels, see C07 finding deep-nesting-stack-overflow)",
                     "ParseOneComponentValue / ParseFunction / SplitOnComma helpers"],
    "codes": {"1": "implementation result (token/compound tree with flags and positions) differs from the model's",
              "2": "skipped",
              "3": "implementation panicked or hung where the model (proved total) returns a value",
              "4": "model panics / runs out of fuel where the implementation returned"},
    "theorems_for_kind": {k: _T for k in ["corpus", "exhaust", "exhaust-ctx", "trunc", "trunc-gen", "short", "soup", "decls", "rules", "nth", "tests",
                                          "mut-prefix", "mut-delete", "mut-replace", "mut-insert", "mut-none"]},
    "rule": "SplitMix64-seeded: corpus (witnesses of the fixed defects), all strings of length <= 2 (thorough 3) over a 21-symbol alphabet, every prefix (end of input after every code point) of ~200 well-formed constructs covering every scanner and look-ahead (bare, one nesting level down, and through the fitting parser entry point), per-scanner exhaustive neighbourhoods (heads such as u+ 1e url( ' \\ # @ followed by all strings of length <= 2..4 over the symbols that scanner distinguishes; ~7000 inputs, all deterministic), every prefix of a sample of the generated texts, random short strings, grammar-directed token soups with escapes and nesting depth <= 6, declaration-list / rule-list / An+B shaped texts, css-parsing-tests inputs, and prefix / single-rune deletion / replacement / insertion mutations of all of them; entry points Tokenize (both modes), ParseStylesheetBytes, ParseBlocksContentsString, ParseDeclarationListString, ParseOneDeclaration, ParseNth; non-trivial = at least 2 code points; distinct by (entry point, flags, source)",
}
MANIFEST = {
    "text": "Coq model of css/parser tokenizer.go / parser.go / nth.go (line-by-line port over code points, panics visible) proved total and proved equal, for every valid UTF-8 text, to an independent two-phase transcription of CSS Syntax Level 3 (3.3 preprocessing, 4.3 consume-a-token incl. escapes/strings/urls/numbers, 5.4.7-9 blocks and functions) modulo a documented presentation map; declaration lists / rule lists proved compositional at ';' / '{}' (exact error recovery), !important and declarations proved = 5.4.6 plus the {} rule of the css-syntax draft (every token list), ParseBlocksContents proved compositional at ';' / '{}' with each item = the draft's declaration-else-nested-rule (spec_item), ParseNth proved = the <an+b> grammar, positions proved = (1+newlines, 1+bytes since newline) per iteration. The model is compared with /repo on every run by vm_compute on complete token / compound trees (flags, byte positions) for six entry points.",
    "note": "Trusted: Coq kernel (vm_compute), Go harness + hook css/parser/verif_export_c06.go, strconv (number values), F32 rounding model for Int(). Valid UTF-8 only. Partial: text-level compositionality is stated (C06_text_compositional_statement, validated on all short strings) with the token-level theorem proved; ParseBlocksContents ends an item right after its first {} block where the css-syntax draft lets a declaration run to the ';' (documented, part of spec_item); positions are proved per iteration, not as a predicate over the tree; colors.go not modelled. Seven spec deviations of /repo were found and fixed (5 in the tokenizer/parser found by the model, 2 found by the proofs of important_spec and declaration_draft_spec).",
    "technique": "Coq proof over executable model + vm_compute correspondence with the Go implementation",
}
