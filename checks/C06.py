SPEC = {
    "id": "C06",
    "harness": "c06",
    "n": {"quick": 4000, "thorough": 60000},
    "shard": 250,
    "trusted_base": [
        "strconv.ParseFloat/ParseInt, regexp, unicode/utf8 of the Go standard library (number values are not compared; the representation string and the integer flag are)",
        "/repo hook css/parser/verif_export_c06.go (read-only accessors of unexported token flags and parse-error kinds)",
        "the model works on the code points of the valid UTF-8 input; byte columns are recomputed from UTF-8 widths",
    ],
    "not_modelled": ["invalid UTF-8 input", "ParseError.Message strings", "float32 value of numeric tokens", "colors.go"],
    "codes": {"1": "implementation result (token/compound tree with flags and positions) differs from the model's",
              "2": "skipped",
              "3": "implementation panicked or hung where the model (proved total) returns a value",
              "4": "model panics / runs out of fuel where the implementation returned"},
    "theorems_for_kind": {},
    "rule": "SplitMix64-seeded: corpus, all strings of length <= 2 (thorough 3) over a 21-symbol alphabet, random short strings, grammar-directed token soups with escapes and nesting, declaration-list / rule-list / An+B shaped texts, css-parsing-tests inputs, and prefix / single-rune deletion / replacement / insertion mutations of all of them; non-trivial = at least 2 code points; distinct by (entry point, flags, source)",
}
MANIFEST = {
    "text": "Coq model of css/parser tokenizer.go / parser.go / nth.go proved total and equal to a transcription of CSS Syntax Level 3 (consume-a-token + tree construction), compared on every run with /repo on complete token / compound trees (flags, byte positions) by vm_compute",
    "note": "Trusted: Coq kernel (vm_compute), Go harness + hook css/parser/verif_export_c06.go, strconv (number values). Valid UTF-8 only.",
    "technique": "Coq proof over executable model + vm_compute correspondence with the Go implementation",
}
