SPEC = {
    "id": "C09",
    "harness": "c09",
    "n": {"quick": 1500, "thorough": 24000},
    "shard": 170,
    "tie_codes": (),
    "trusted_base": [
        "/repo hook html/boxes/verif_export_c09.go (VerifC09ElementToBox = first half of BuildFormattingStructure; table flags; makeBox; integerAttribute)",
        "projection of Go boxes to abstract boxes in go/cmd/c09 (type, element index, pseudo type, anonymous style, float/position/running flags, white-space class, header/footer display, caption-side, colspan/rowspan/span attributes, text)",
        "elementToBox, style computation and x/net/html parsing produce the model's input (not modelled; only makeBox's display switch is)",
        "the element -> display:none relation: an element is hidden when its style attribute declares display:none or its computed display is none; the computed styles are read from a separate parse on which no box has been generated (elementToBox writes into the style objects it visits)",
        "the footnote list filled by BuildFormattingStructure is read through the footnotes argument of the call",
    ],
    "not_modelled": ["ProcessWhitespace / text transforms (the text after them is an input)", "collapseTableBorders",
                     "Leading/TrailingCollapsibleSpace bookkeeping of InlineInBlock", "footnote extraction",
                     "elementToBox's box contents (pseudo-elements, markers, replaced elements: only their resulting boxes are inputs; WHICH elements get boxes and the footnote list ARE modelled: Box/ElementGen.v)"],
    "codes": {"1": "box tree returned by BuildFormattingStructure differs from the model's tree (type, anonymity, element, GridX/Colspan/Rowspan, wrapper/header/footer/item flags, text or child order)",
              "3": "implementation's tree violates the well-formedness specification Box/BoxWf.wf_root",
              "4": "a box exists for an element of a display:none subtree (in the box tree or in the footnote list)",
              "5": "implementation panicked where the model returns a tree",
              "6": "model panics / runs out of fuel where the implementation returned a tree",
              "7": "malformed case", "8": "makeBox display->type table differs", "9": "box class table differs",
              "10": "IsInProperParents table differs",
              "11": "two cells of a row group share a grid slot, every such pair being a column-spanning cell that runs into a cell spanning down from a row above (tree otherwise as the model says)",
              "13": "the footnote list holds a box whose element is not a visible float: footnote element of the document, or its entries are not in the order in which those elements end",
              "12": "two cells of a row group share a grid slot in another way than colspan over a row-spanning cell"},
    "theorems_for_kind": {
        "tree": "C09_create_anonymous_wf_partial / C09_table_fixup_wf / C09_slots (the model's tree is the well-formed one) / C09_element_to_box_display_none / C09_footnote_list",
        "corpus": "C09_create_anonymous_wf_partial / C09_slots",
        "makebox": "C09_makebox_table_total", "classes": "class predicates used by every C09 theorem",
        "proper-parents": "C09_table_fixup_wf (rule 3.2)",
    },
    "rule": "SplitMix64-seeded random documents (<= 30 elements; every element gets a random display among the 20 supported values "
            "incl. mis-nested table parts, float, position incl. running(), white-space, colspan/rowspan/span attributes, ::before/::after "
            "with content, list items, images, float: footnote with footnote-display; 1 element in 16 is display:none crossed with one or two other box-generating features (float left / right / footnote x footnote-display, "
            "position absolute / fixed / relative / running(), list markers, ::before / ::after content, replaced / table-cell / list-item / footnote children), in both declaration orders; text / whitespace-only text between elements; real <table> markup; 1 in 6 a well-formed table "
            "with heavy col/rowspans) + exhaustive makeBox / box-class / IsInProperParents tables + corpus/C09/*.html first; "
            "non-trivial = more than 3 boxes before fix-up; distinct by Coq term",
}
MANIFEST = {
    "text": "Coq theorems over a line-by-line Gallina port of CreateAnonymousBox (table fix-up rules 1.1-3.2, wrapTable with grid-slot "
            "assignment, flex/grid blockification, InlineInBlock, BlockInInline with its resume stacks): each pass establishes its part of the "
            "well-formedness specification Box/BoxWf.wf and the whole never panics and terminates (block containers: only block-level boxes or one line box; inline/line boxes: only "
            "inline-level or out-of-flow boxes; tables in wrappers with captions, column groups, row groups > rows > cells; flex/grid items "
            "blockified; text/replaced boxes childless), composition create_anonymous_wf; grid slots: totality, rowspans clipped, least free "
            "column, no cell over a later cell's anchor column, disjointness when colspans are 1, a proved REFUTATION of full disjointness "
            "(colspan over a row-spanning cell, reproduced on /repo) and the proof that this is the ONLY way two cells share a slot; makeBox's display switch total and correct. On every run the model's tree is "
            "compared node by node with boxes.BuildFormattingStructure on generated documents and wf is evaluated on the implementation's tree.",
    "note": "C09_create_anonymous_wf is total correctness (always returns, no panic / fuel exhaustion: bounded recursion of tableBoxesChildren, "
            "wrapTable's byType lookup, InlineInBlock's line-box panic, BlockInInline's resume stacks and termination) AND well-formedness, for "
            "documents without position:running(); with running elements anywhere except a running table as the root it is proved as "
            "C09_create_anonymous_wf_running (all five passes); the unrestricted statement is refuted (running root table: known finding).  Full slot disjointness is refuted. elementToBox is not modelled: "
            "'display:none generates no box' is proved for makeBox and checked on the implementation's tree. Trusted: Coq kernel (vm_compute), "
            "harness projection, hook html/boxes/verif_export_c09.go.",
    "technique": "Coq proof over executable model + vm_compute correspondence with the Go implementation",
}
