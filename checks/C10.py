"""C10 -- Block-level boxes are sized and stacked per CSS 2.1.

Custom run(): the generic lib/corr.run_check flow (proofs re-checked, harness rebuilt
against /repo's working tree, model evaluated inside Coq on the harness cases), plus
 * documents and leaf cases sharded separately (documents are ~50x more expensive),
 * informational codes: a document on which implementation and float32 model agree is
   then checked against the SPECIFICATION (CSS 2.1 equations of Layout/Css21BlockSpec.v
   evaluated with exact arithmetic on the implementation's output, when the float32
   computation was exact); codes 100/101/102 report how that went and are not
   disagreements,
 * --replay re-runs the implementation on the replayed document.
"""
import concurrent.futures as cf
import json
import os
import re
import time

from lib import corr

SPEC = {
    "id": "C10",
    "harness": "c10",
    "n": {"quick": 12000, "thorough": 150000},
    "shard": 250,
    "trusted_base": [
        "Base/F32.v rounding model (validated on every run by C17's CRound/CArith cases against Go's float32)",
        "computed styles are inputs of the model: the harness reads margin/padding/border/width/height/min/max/box-sizing back from box.Style of every laid out box (CSS parsing, cascade and computed values are C06/C03/C04's subject)",
        "/repo hook html/layout/verif_export_c10.go (VerifBlockLevelWidth, VerifResolvePercentages, VerifCollapseMargin)",
        "harness projection of bo.BoxFields to the observables PositionX/Y, Width, Height, margins, paddings, borders",
    ],
    "not_modelled": [
        "floats and clearance", "direction: rtl", "replaced blocks", "tables", "flex / grid children",
        "relative positioning", "pagination (one 10000px x 100000px page)", "multi-column", "border-collapse",
        "line boxes (boxes are empty <div>s)",
        "the stored right margin of an over-constrained box (the implementation keeps the specified value; DESIGN.md C10 note)",
        "zero percentages: 'height: 0%' / 'max-height: 0%' are turned into 0px by the computed-value stage (html/tree, C04) before layout sees them",
    ],
    "codes": {
        "1": "PositionX/PositionY/Width/Height of a box differ bit-for-bit from the float32 instance of the model",
        "3": "a margin / padding / border of a box differs from the model",
        "4": "number of laid out boxes differs from the model",
        "5": "blockLevelWidth (with min/max) on a synthetic box differs from the model",
        "6": "resolvePercentages on a styled box differs from the model",
        "7": "the implementation produced NaN / infinity where the model value is finite",
        "8": "collapseMargin differs from the model",
        "9": "the implementation panicked on a tree of plain block boxes (the model is total)",
        "10": "the document was split over several pages although the page is 100000px high",
        "20": "a CSS 2.1 position/height equation fails on the implementation's output for a tree inside the domain of C10_margin_collapsing_partial",
        "21": "a CSS 2.1 position/height equation fails on the implementation's output; the tree contains a box that collapses with its children and whose first child's margins collapse through it",
        "23": "margin-left + border-left + padding-left + width + padding-right + border-right + margin-right differs from the containing block's width for a box that is not over-constrained",
        "2": "skipped: outside the modelled domain or binary32 range",
    },
    "theorems_for_kind": {
        "doc": "C10_margin_collapsing_partial / C10_width_rules / C10_minmax_spec / C10_percentages_spec (model = CSS 2.1) + model = implementation",
        "doc-exact": "C10_margin_collapsing_partial, C10_siblings_ordered_no_overlap, C10_auto_height_spec",
        "doc-chain": "C10_margin_collapsing_partial, C10_collapse_margin_spec",
        "doc-boundary": "C10_width_rules, C10_minmax_spec, C10_percentages_spec",
        "corpus": "C10_margin_collapsing_partial",
        "width": "C10_width_rules, C10_minmax_spec, C10_negative_width_clamped",
        "percentages": "C10_percentages_spec",
        "collapse": "C10_collapse_margin_spec",
    },
    "rule": "SplitMix64-seeded generator: documents of nested empty <div>s (<= 23 boxes, depth <= 5 below <body>, inline styles on <html>/<body>/<div>: px and % lengths incl. negative margins, auto, min/max-width/height, box-sizing, zero and non-zero borders/paddings, fixed/auto/0 heights) in four streams (random decimals; dyadic values for which float32 is exact; margin-collapsing chains with small integers; boundary values), corpus/C10/*.html first; leaf streams through the hooks: blockLevelWidth on synthetic boxes (incl. exactly-fitting / just-overflowing / min>max), resolvePercentages on parsed styles against random containing blocks (auto and fixed height), collapseMargin on random lists; non-trivial = more than 3 boxes / any leaf case; distinct by Coq term",
}
MANIFEST = {
    "text": "Coq theorems over the exact-rational instance of an executable port of blockLevelWidth_/handleMinMaxWidth/resolvePercentages/collapseMargin/blockContainerLayout+inFlowLayout: CSS 2.1 10.3.3 (equation + every case), 10.4, percentages/box-sizing, collapsed margin = max+ + min-, and -- on every tree where no box collapsing with its children has a collapsed-through first child -- the 8.3.1/9.4.1/10.6.3 position and height equations (siblings stacked at the collapsed margin, auto height ends at the last child); the general statement is refuted by a witness replayed on /repo (known finding). The float32 instance of the same model is compared bit-for-bit with /repo on generated documents and hook calls on every run, and the CSS equations are evaluated on the implementation's output whenever the float32 computation is exact.",
    "note": "Trusted: Coq kernel (vm_compute), F32 rounding model, Go harness + hook html/layout/verif_export_c10.go, computed styles read back from the boxes. Partial: margin collapsing is proved on the stated domain only (outside it the implementation deviates from CSS 2.1: known finding C10/through-first-child); floats, RTL, tables, flex/grid, relative positioning, pagination and line boxes are outside the model.",
    "technique": "Coq proof over executable model + vm_compute correspondence with the Go implementation + specification predicates evaluated on the implementation's output",
}

INFO = {100: "spec_holds_in_domain", 101: "spec_holds_outside_domain", 102: "spec_not_evaluated_inexact_float32"}
PAIR = re.compile(r"\(\s*(\d+)(?:%N)?\s*,\s*(\d+)(?:%N)?\s*\)")


def _run_shard(args):
    name, terms = args
    d = os.path.join(corr.WORK, "C10")
    path = os.path.join(d, name + ".v")
    with open(path, "w") as f:
        f.write("From Verif Require Import Check.C10.\n")
        f.write("From Coq Require Import QArith ZArith NArith List String.\nImport ListNotations.\n")
        f.write("Open Scope Q_scope.\nOpen Scope Z_scope.\nOpen Scope N_scope.\nOpen Scope list_scope.\n")
        f.write("Definition cases : list case := [\n")
        f.write(";\n".join("(" + t + ")" for t in terms))
        f.write("\n].\nDefinition M := Eval vm_compute in mismatches 0%N cases.\nPrint M.\n")
    rc, out = corr.sh(["coqc", "-Q", "theories", "Verif", "-w", "none", "-o", os.path.join(d, name + ".vo"), path],
                      cwd=corr.COQ, timeout=3000)
    return name, rc, out


def eval_all(cases, jobs=16):
    """returns ({case index: code} for non-zero codes, errors)"""
    docs = [i for i, c in enumerate(cases) if c["coq"].startswith("CDoc")]
    leaves = [i for i, c in enumerate(cases) if not c["coq"].startswith("CDoc")]
    nd = max(1, min(60, -(-len(docs) // jobs)))
    nl = max(250, -(-len(leaves) // (2 * jobs)))
    shards = []
    for k in range(0, len(docs), nd):
        shards.append(("Doc_%d" % (k // nd), docs[k:k + nd]))
    for k in range(0, len(leaves), nl):
        shards.append(("Leaf_%d" % (k // nl), leaves[k:k + nl]))
    idx = dict(shards)
    d = os.path.join(corr.WORK, "C10")
    for f in os.listdir(d):      # shard files of the previous run
        if re.match(r"(Doc|Leaf|Shard)_", f):
            os.remove(os.path.join(d, f))
    codes, errors = {}, []
    with cf.ThreadPoolExecutor(max_workers=jobs) as ex:
        for name, rc, out in ex.map(_run_shard, [(n, [cases[i]["coq"] for i in ids]) for n, ids in shards]):
            if rc != 0:
                errors.append("shard %s: coqc failed: %s" % (name, out[-1500:]))
                continue
            flat = re.sub(r"\s+", " ", out)
            m = re.search(r"M = (.*?) : list", flat)
            if not m:
                errors.append("shard %s: cannot parse: %s" % (name, flat[-500:]))
                continue
            for a, b in PAIR.findall(m.group(1)):
                codes[idx[name][int(a)]] = int(b)
    return codes, errors


def run(tier, replay=None):
    spec = SPEC
    pid = "C10"
    seed = int(os.environ.get("VERIF_SEED", "1"))
    rep = corr.Report(pid, tier, seed)
    os.makedirs(os.path.join(corr.WORK, pid), exist_ok=True)
    before = corr.repo_state()
    coverage = {"trusted_base": corr.KERNEL_TB + spec["trusted_base"],
                "checker_cmd": "make -C /verif/coq theories/Properties/C10.vo theories/Check/C10.vo && coqc theories/Properties/C10.v (Print Assumptions) && coqc <shards> (vm_compute correspondence + specification predicates)",
                "not_modelled": spec["not_modelled"]}
    assumptions = []

    # 1. proofs
    rc, out = corr.coq_make(["theories/Properties/C10.vo", "theories/Check/C10.vo"])
    proofs_ok = rc == 0
    props = {"ok": False, "theorems": [], "axioms": [], "closed": 0, "log": out}
    if proofs_ok:
        props = corr.coq_properties(pid)
        proofs_ok = props["ok"]
    coverage["obligations"] = max(1, len(props["theorems"]))
    coverage["discharged"] = len(props["theorems"]) if proofs_ok else 0
    coverage["theorems"] = props["theorems"]
    coverage["axioms_print_assumptions"] = props["axioms"]
    coverage["theorems_closed_under_global_context"] = props["closed"]
    coverage["statements_not_proved"] = ["C10_margin_collapsing_spec_statement (refuted: C10_margin_collapsing_refuted; proved on the domain no_through_first: C10_margin_collapsing_partial)"]
    if props["axioms"]:
        assumptions.append("axioms reported by Print Assumptions: " + ", ".join(props["axioms"]))
    files, hits = corr.audit(pid)
    coverage["coq_files_in_closure"] = files
    coverage["audit_forbidden_constructs"] = hits
    if hits:
        proofs_ok = False
        coverage["discharged"] = 0
        props["log"] = "forbidden constructs (Admitted/Axiom/...):\n" + "\n".join(hits)
    if tier == "thorough" and proofs_ok:
        chk = corr.coqchk(pid)
        coverage["coqchk"] = {"ok": chk["ok"], "axioms": chk["axioms"], "wall_s": chk["wall_s"]}
        if not chk["ok"]:
            proofs_ok = False
            coverage["discharged"] = 0
            props["log"] = "coqchk failed:\n" + chk["tail"]
    proof_break = None
    if not proofs_ok:
        proof_break = {"broken": "Coq build / theorems of Properties/C10.v no longer check",
                       "log_tail": (props["log"] or out)[-3000:]}

    # 2. harness
    binp = os.path.join(corr.WORK, "bin", "c10")
    os.makedirs(os.path.dirname(binp), exist_ok=True)
    rc, out = corr.go_build("./cmd/c10", binp)
    if rc != 0:
        rep.violation({"property": pid, "broken_tie": "Go harness no longer builds against /repo's working tree",
                       "log_tail": out[-3000:]}, name="harness-build", no_input=True)
        return rep.finish("proof", dict(coverage, evaluations=0), assumptions)
    cases_path = os.path.join(corr.WORK, pid, "cases.jsonl")
    env = dict(os.environ, VERIF_SEED=str(seed), VERIF_TIER=tier)
    t1 = time.time()
    if replay:
        obj = json.load(open(replay))
        case = obj.get("case") or {}
        html = (case.get("desc") or {}).get("html") if isinstance(case.get("desc"), dict) else None
        if html:   # re-run the implementation on the replayed document
            rc, out = corr.sh([binp, "-out", cases_path, "-html", html], env=env, timeout=600, cwd=os.path.join(corr.ROOT, "go"))
            cases = corr.read_cases(cases_path) if rc == 0 else [case]
        else:      # leaf case: the recorded implementation output is re-compared with the model
            cases = [case] if case else []
    else:
        n = int(os.environ.get("VERIF_C10_N") or spec["n"][tier])   # VERIF_C10_N: development only
        rc, out = corr.sh([binp, "-out", cases_path, "-n", str(n)], env=env, timeout=3000,
                          cwd=os.path.join(corr.ROOT, "go"))
        if rc != 0:
            rep.violation({"property": pid, "broken_tie": "Go harness crashed or timed out (exit %d)" % rc,
                           "log_tail": out[-3000:]}, name="harness-run", no_input=True)
            return rep.finish("proof", dict(coverage, evaluations=0), assumptions)
        cases = corr.read_cases(cases_path)
    coverage["harness_wall_s"] = round(time.time() - t1, 1)

    # 3. model + specification evaluation
    t1 = time.time()
    codes, errors = eval_all(cases)
    coverage["model_eval_wall_s"] = round(time.time() - t1, 1)
    if errors:
        rep.violation({"property": pid, "broken_tie": "model evaluation failed", "errors": errors[:5]},
                      name="model-eval", no_input=True)

    # 4. classify
    info = {k: 0 for k in INFO.values()}
    skipped, real = [], []
    for i, code in sorted(codes.items()):
        if code in INFO:
            info[INFO[code]] += 1
        elif code == 2:
            skipped.append(i)
        else:
            real.append((i, code))
    findings = corr.load_findings(pid)
    unknown = []
    for i, code in real:
        f = next((f for f in findings if corr.finding_matches(f, cases[i], code)), None)
        if f:
            rep.known_finding(f)
        else:
            unknown.append((i, code))
    if unknown:
        terms = ["model_out (%s)" % cases[i]["coq"] for i, _ in unknown[:8]]
        vals = corr.eval_terms(pid, "Check.C10", terms)
        for j, (i, code) in enumerate(unknown[:8]):
            c = cases[i]
            rep.violation({"property": pid, "case": c, "code": code,
                           "code_meaning": spec["codes"].get(str(code), "implementation and model disagree"),
                           "model_observable": vals[j] if j < len(vals) else None,
                           "contradicts": spec["theorems_for_kind"].get(c.get("kind"), "model = spec theorems of Properties/C10.v"),
                           "seed": seed,
                           "how_to_replay": "python3 /verif/verif.py check C10 --replay <this file>"})
        if len(unknown) > 8:
            print("(%d further disagreements not written out)" % (len(unknown) - 8))
    if proof_break and not unknown:
        rep.violation(dict(proof_break, property=pid), name="proof-broken", no_input=True)

    kinds, tags, distinct = corr.distribution(cases)
    ndocs = sum(1 for c in cases if c["coq"].startswith("CDoc"))
    coverage.update({
        "evaluations": len(cases), "distinct_nontrivial": distinct, "rule": spec["rule"],
        "disagreements_checked": len(cases), "disagreements": len(real), "disagreements_known": len(real) - len(unknown),
        "skipped_out_of_range": len(skipped),
        "documents": ndocs,
        "specification_on_implementation_output": dict(info, spec_violated_known_finding=sum(1 for _, c in real if c == 21)),
        "input_distribution": {"kinds": kinds, "tags": tags},
        "samples": [{"kind": c.get("kind"), "desc": c.get("desc")} for c in cases[:2]] + ([{"coq": cases[0]["coq"][:600]}] if cases else []),
    })
    after = corr.repo_state()
    if after != before:
        rep.violation({"property": pid, "broken": "/repo working tree changed during the check", "before": before, "after": after},
                      name="repo-dirty", no_input=True)
    return rep.finish("proof", coverage, assumptions)
