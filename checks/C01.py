SPEC = {
    "id": "C01",
    "harness": "c01",
    "n": {"quick": 800, "thorough": 20000},
    "harness_args": lambda tier: (["-confirm-ms", "20000", "-shrink-calls", "60"] if tier == "quick"
                                  else ["-confirm-ms", "120000", "-shrink-calls", "300", "-max-shrunk", "1000"]),
    "harness_timeout": 20000,
    "shard": 250,
    "tie_codes": (),
    "trusted_base": [
        "x/net/html parsing (the parsed document's top-level node kinds are recorded inputs of the root-discovery model)",
        "go/cmd/c01: generator, worker pool (one document per worker call, 10 s in-process watchdog with goroutine dump, 14 s parent watchdog, ulimit -v 3 GiB), recording backend of go/vlib/render, offline URL fetcher (data: URIs through /repo's decoder, a few in-memory files, everything else missing)",
        "a watchdog expiry is re-run once with a longer budget (quick 25 s, thorough 120 s): a document that returns within it counts as Ok (tag slow); Hang = did not return within the long budget",
        "the abstract page maker of Layout/PageLoop.v (layout of ONE page) enters the theorems through the PROGRESS hypothesis only; its instances in /repo (blocks, lines, tables, flex, grid, columns) are covered by the stream, not by a proof",
    ],
    "not_modelled": [
        "TESTED-ONLY (stream, no theorem): html/layout (blocks, inline, tables, flex, grid, columns, floats, absolute, preferred widths), html/boxes box building, html/document drawing, text engines (pango port and go-text), svg and image rendering, css validation / computed values",
        "performance: layout time polynomial or exponential in nesting depth is only observed through the watchdog",
        "later re-pagination rounds re-using up-to-date pages (statement C01_later_rounds_terminate_statement; the first round and the bound on rounds are proved)",
    ],
    "codes": {"1": "the implementation panicked (site = first /repo frame) where the specification says the call returns",
              "3": "the worker process died (stack exhaustion / out of memory / unrecovered panic in another goroutine)",
              "4": "the call did not return within the watchdog (10 s, confirmed with the longer budget)",
              "5": "more re-pagination rounds than maxLoops (Layout/PageLoop.v repagination_bounded)",
              "6": "tree.NewHTML chose a root that is not the first element child (Css/FindRoot.v find_root)"},
    "theorems_for_kind": {
        "gen": "specification of C01: rendering returns (C01_page_loop_terminates / C01_repagination_bounded / C01_find_root_is_element for the modelled mechanisms; the rest of the pipeline is tested-only)",
        "corpus": "regression witness of a repaired defect (known_findings.json kind=fixed): rendering returns",
    },
    "rule": "SplitMix64-seeded random documents: tag soup from a ~60-tag pool (tables/lists/forms/svg/img/br/hr/pre; comments, doctype, stray text anywhere incl. before <html>; nesting up to 60; bidi/RTL text, long words, entities) x random CSS (author <style>, user sheets, inline style; valid and broken; display/float/position/columns/flex/grid/table values; custom properties incl. cycles; @counter-style incl. cycles and zero weights; @page incl. degenerate sizes; break-*; transforms; content/quotes/counters; images with data: URIs and missing files) x presentational hints on/off x both text engines; corpus/C01 witnesses first (each with both engines); non-trivial = more than 3 structural pieces; distinct by html+css+configuration",
}
MANIFEST = {
    "text": "Coq theorems for the mechanisms the property names: the page loop of makeAllPages/remakePage (port over an abstract page maker) returns without panic within an explicit fuel under the PROGRESS hypothesis (pageIsEmpty rule), the re-pagination loop runs at most maxLoops=8 rounds, root discovery after html.Parse is total and returns the first element child (the unchanged code is refuted: comment before <html>); cycle guards / var() / tokenizer / counter totalities are proved under C18, C19, C08, C06, C07, C04. The rest of the pipeline is covered by a whole-pipeline random stream (NewHTML -> Render -> Write on a recording backend, one document per watchdog-ed worker) whose observable Ok | Panic(site) | Fatal | Hang is compared with the specification 'returns' on every run.",
    "note": "PARTIAL: 'never crashes' over ~50k lines of layout / drawing / text code is not a theorem; it is tested-only by the stream (panic sites grouped by first /repo frame, failing documents shrunk structurally, known findings matched by site + structural trigger tags). Later re-pagination rounds (page re-use) are stated, not proved. Slow-but-terminating layouts (narrow columns with long words, nested multi-column) are reported as Ok/slow when they return within the second watchdog.",
    "technique": "Coq proof over executable models of the named mechanisms + whole-pipeline crash/hang stream compared with the specification 'returns' (vm_compute over the recorded cases)",
}
