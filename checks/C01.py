SPEC = {
    "id": "C01",
    "harness": "c01",
    "n": {"quick": 800, "thorough": 20000},
    "harness_args": lambda tier: (["-confirm-ms", "20000", "-shrink-calls", "60", "-shrink-wall-ms", "15000"] if tier == "quick"
                                  else ["-confirm-ms", "120000", "-shrink-calls", "300", "-max-shrunk", "1000"]),
    "harness_timeout": 20000,
    "shard": 250,
    "tie_codes": (),
    "trusted_base": [
        "x/net/html parsing (the parsed document's top-level node kinds are recorded inputs of the root-discovery model)",
        "go/cmd/c01: generator, worker pool (one document per worker call, 10 s in-process watchdog with goroutine dump, 14 s parent watchdog, ulimit -v 3 GiB), recording backend of go/vlib/render, offline URL fetcher (data: URIs through /repo's decoder, a few in-memory files, everything else missing)",
        "a watchdog expiry is re-run once with a longer budget (quick 25 s, thorough 120 s): a document that returns within it counts as Ok (tag slow); Hang = did not return within the long budget",
        "the abstract page maker of Layout/PageLoop.v (layout of ONE page) enters the theorems through the PROGRESS hypothesis only; its instances in /repo (blocks, lines, tables, flex, grid, columns) are covered by the stream and, per recorded page, by the page traces (a resume point that repeats = no progress), not by a proof",
        "hook html/layout/verif_export_c01.go (VerifPageTrace): re-runs the loop of makeAllPages for the first round around /repo's own remakePage, reading pageMaker / reportedFootnotes before and after each page; resume points are compared by their printed form",
    ],
    "not_modelled": [
        "TESTED-ONLY (stream, no theorem): html/layout (blocks, inline, tables, flex, grid, columns, floats, absolute, preferred widths), html/boxes box building, html/document drawing, text engines (pango port and go-text), svg and image rendering, css validation / computed values",
        "performance: layout time polynomial or exponential in nesting depth is only observed through the watchdog",
        "later re-pagination rounds re-using up-to-date pages (statement C01_later_rounds_terminate_statement; proved: the first round, the bound on rounds, and that the re-use branch of the repaired loop never indexes a page the previous round does not have, C01_reuse_index_in_range; the unchanged loop is refuted, C01_later_round_orig_refuted)",
        "page traces record the first pagination round only; nested footnotes (a footnote placed on a blank page can report the footnotes it contains): check 8 counts the footnotes not placed yet, the theorem's hypothesis counts the reported ones",
    ],
    "codes": {"1": "the implementation panicked (site = first /repo frame) where the specification says the call returns",
              "3": "the worker process died (stack exhaustion / out of memory / unrecovered panic in another goroutine)",
              "4": "the call did not return within the watchdog (10 s, confirmed with the longer budget)",
              "5": "more re-pagination rounds than maxLoops (Layout/PageLoop.v repagination_bounded)",
              "6": "tree.NewHTML chose a root that is not the first element child (Css/FindRoot.v find_root)",
              "7": "page trace: the page-maker bookkeeping of remakePage / the exit test of makeAllPages differs from the model (Layout/PageLoop.v remake_page, replayed page by page)",
              "8": "page trace: a blank page did not place the first footnote reported to it, or reported more than it received (hypothesis of C01_page_loop_terminates, proved for the loop of makePage: C01_reported_footnotes_decrease) - the page loop does not end",
              "9": "page trace: a page with content returned a resume point already returned by an earlier page: no measure decreases (PROGRESS hypothesis of C01_page_loop_terminates) - the page loop does not end"},
    "theorems_for_kind": {
        "gen": "specification of C01: rendering returns (C01_page_loop_terminates / C01_repagination_bounded / C01_find_root_is_element for the modelled mechanisms; the rest of the pipeline is tested-only)",
        "corpus": "regression witness of a repaired defect (known_findings.json kind=fixed): rendering returns",
        "gen-trace": "C01_page_loop_terminates / C01_reported_footnotes_decrease: the recorded first pagination round must be a run of the model of remakePage / makeAllPages on which the hypotheses of the termination theorem hold (Check.C01.replay)",
        "corpus-trace": "C01_page_loop_terminates / C01_reported_footnotes_decrease on the recorded first pagination round of a regression witness (Check.C01.replay)",
    },
    "rule": "SplitMix64-seeded random documents: tag soup from a ~60-tag pool (tables/lists/forms/svg/img/br/hr/pre; comments, doctype, stray text anywhere incl. before <html>; nesting up to 60; bidi/RTL text, long words, entities) x random CSS (author <style>, user sheets, inline style; valid and broken; display/float/position/columns/flex/grid/table values; custom properties incl. cycles + a custom-property graph dimension (2..5 properties, cyclic / acyclic / self / undefined references, every edge bare or routed through calc()/min()/rgb()/unknown functions/blocks/var() fallbacks, definitions split over ancestors, regular properties using them); a footnote dimension (@page { @footnote { max-height / height .. } }, float: footnote elements higher than the area / the page, footnote-policy / -display, call / marker pseudo-elements, footnotes in columns); @counter-style incl. cycles and zero weights; @page incl. degenerate sizes; break-*; transforms; content/quotes/counters; images with data: URIs and missing files) x presentational hints on/off x both text engines; corpus/C01 witnesses first (each with both engines); non-trivial = more than 3 structural pieces; distinct by html+css+configuration. Page traces (second kind of case): the first pagination round of every document with float: footnote, of every 4th other document and of every document that did not return, recorded page by page through the hook layout.VerifPageTrace (page cap 60) and replayed on the model",
}
MANIFEST = {
    "text": "Coq theorems for the mechanisms the property names: the page loop of makeAllPages/remakePage (port over an abstract page maker) returns without panic within an explicit fuel under the PROGRESS hypothesis (pageIsEmpty rule), the loop of makePage over reported footnotes always places the first one (so blank pages strictly shrink the list; refuted without the `i != 0` guard), the re-pagination loop runs at most maxLoops=8 rounds, root discovery after html.Parse is total and returns the first element child (the unchanged code is refuted: comment before <html>); cycle guards / var() / tokenizer / counter totalities are proved under C18, C19, C08, C06, C07, C04. The rest of the pipeline is covered by a whole-pipeline random stream (NewHTML -> Render -> Write on a recording backend, one document per watchdog-ed worker) whose observable Ok | Panic(site) | Fatal | Hang is compared with the specification 'returns' on every run.",
    "note": "PARTIAL: 'never crashes' over ~50k lines of layout / drawing / text code is not a theorem; it is tested-only by the stream (panic sites grouped by first /repo frame, failing documents shrunk structurally, known findings matched by site + structural trigger tags). Later re-pagination rounds (page re-use) are stated, not proved. Slow-but-terminating layouts (narrow columns with long words, nested multi-column) are reported as Ok/slow when they return within the second watchdog.",
    "technique": "Coq proof over executable models of the named mechanisms + whole-pipeline crash/hang stream compared with the specification 'returns' + page-by-page replay of the recorded first pagination round on the page-loop model with the theorem's hypotheses checked on every recorded page (vm_compute over the recorded cases)",
}
