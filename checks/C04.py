import os
import sys

sys.path.insert(0, os.path.dirname(os.path.dirname(os.path.abspath(__file__))))
from lib import corr  # noqa: E402

GEN_SRC = os.path.join(corr.ROOT, "tools", "gen_c04")
GEN_BIN = os.path.join(corr.WORK, "bin", "gen_c04")
TABLES = os.path.join(corr.COQ, "theories", "Generated", "PropTables.v")


def pre(rep):
    """Translator tie: regenerate Generated/PropTables.v from /repo's source text (working tree).
    The file is rewritten only when its text changes; `make` then re-checks every theorem over it."""
    os.makedirs(os.path.dirname(GEN_BIN), exist_ok=True)
    env = dict(os.environ, GOFLAGS="", GOPROXY="off", GOSUMDB="off", GOTOOLCHAIN="local", CGO_ENABLED="0")
    rc, out = corr.sh(["go", "build", "-o", GEN_BIN, "."], cwd=GEN_SRC, env=env, timeout=600)
    if rc == 0:
        with corr.Lock("coqmake"):
            rc, out = corr.sh([GEN_BIN, "-repo", corr.REPO, "-out", TABLES], timeout=120)
    if rc != 0:
        rep.violation({"property": "C04",
                       "broken_tie": "tools/gen_c04 could not translate the property tables of /repo (source outside the accepted subset, or parse error)",
                       "log_tail": out[-3000:]}, name="translator", no_input=True)
        return {"coverage": {"translator": "FAILED: " + out.strip()[-300:]}}
    cov = {"translator": "tools/gen_c04 (go/ast, stdlib only) -> coq/theories/Generated/PropTables.v: " + out.strip()[-200:]}
    # table audit: entries of the regenerated tables that differ from the tables transcribed from the CSS
    # specifications (the theorems over Generated/PropTables.v say there is none)
    rc, out = corr.coq_make(["theories/Check/C04.vo"])
    if rc == 0:
        os.makedirs(os.path.join(corr.WORK, "C04"), exist_ok=True)
        vals = corr.eval_terms("C04", "Check.C04", ["table_diffs"], tag="tables")
        diffs = vals[0].strip() if vals else "?"
        cov["table_audit"] = diffs[:2000]
        if diffs not in ("[]", "nil"):
            rep.violation({"property": "C04",
                           "failing_input": "table entries of /repo's source (left: source, right: CSS specification)",
                           "entries": diffs[:6000],
                           "meaning": "DInherited name source css: css/properties/datas.go Inherited disagrees with the CSS 'Inherited' column for that property, "
                                      "so an element with no declaration for it takes the wrong default (e.g. <p style=\"NAME: V\"><span> no longer / wrongly inherits V); "
                                      "DUnit / DBolder / DLighter / DFontSizeRatio / DBorderKeyword: LengthsToPixels, fontWeightRelative, FontSizeKeywords, borderWidthKeywords "
                                      "differ from CSS Values 3 5.2 / CSS Fonts 3 3.2, 3.5 / CSS 2.1 8.5.1",
                           "contradicts": "C04_property_tables_spec / C04_unit_table_correct / C04_font_tables_spec / C04_border_style_precedes_width"},
                          name="tables")
    return {"coverage": cov}


SPEC = {
    "id": "C04",
    "harness": "c04",
    "n": {"quick": 80, "thorough": 2000},
    "shard": 12,
    "tie_codes": (),
    "pre": pre,
    "trusted_base": [
        "tools/gen_c04: reading of the Go subset (const/iota blocks, NewSetK(...) sets, map/array literals of constants, InitialValues literals); cross-checked on every run against the runtime tables (CTables case)",
        "/repo hook html/tree/verif_export_c04.go (read-only accessors: style objects, cascaded declarations, computer function names, keyword tables, anonymous style constructor)",
        "Base/F32.v rounding model (validated by C17's CRound/CArith cases)",
        "recorded oracle for computer functions outside the model (images, gradients, grid, content, string-set, transform, vertical-align %): their result is an input read on a separately built copy of the document in index order (the document under test is read in random order), only its inheritance / caching is checked",
        "font metrics of the font each style selects (n_metrics: 1ex/font-size, 1ch/font-size) are a recorded input: text.CharacterRatio called on the separately built copy with an EMPTY cache for every measure and the copy's own font configuration; cross-checked on every document against the documented metrics of the two fonts of the harness (Ahem 0.8/1, weasyprint.otf 0.7998/1: DefaultingSpec.known_font_metrics, code 12). Which font file a family name resolves to (fontconfig matching, @font-face) is outside the model",
        "outcome of var() substitution and validation of pending values is an input (C08)",
    ],
    "not_modelled": [
        "computer functions for images, gradients, grid templates, content, string-set, bookmark-label, transform, link/anchor/lang, border-image-*, background-*, clip, image-orientation (oracle)",
        "vertical-align percentages when line-height is `normal` (strut of the font; with a number / length line-height the recorded result is audited against valign_percent, code 14); ex / ch inside non-modelled values (transform: translate(1ex))",
        "the ex/ch ratio cache is not a state of the document model: ex/ch are a pure function of the node's own font metrics and font size (justified by C04_ratio_cache_transparent over the separate model rc_get/rc_set/character_ratio, itself tied to pr.TextRatioCache by the ratio-cache cases), so any cache that changes a value is a disagreement",
        "custom properties (PropKey.Var) and var() resolution (C08)",
        "StyleFor.Get's table adjustments (padding/margin reset on table boxes); Copy() of the ROOT style (the model's trees have one parentless node; copies of every other style object, anonymous ones included, are modelled: Css/DefaultingCopy.v)",
        "Gets made internally by the non-modelled computer functions (they only warm the cache)",
    ],
    "codes": {
        "1": "a Get returned a value different from the model's (= the proved computed value)",
        "3": "the implementation panicked where the model returns a value",
        "4": "the implementation returned a value where the model panics",
        "5": "a runtime table entry differs from the table translated from the source",
        "6": "model out of fuel",
        "7": "malformed case",
        "8": "the document could not be built (style construction panicked or worker died)",
        "10": "history agrees but the document does not satisfy wt_tree, the typing hypotheses of C04_get_total (validator postconditions)",
        "11": "a cascaded declaration (the constant input of every theorem, shared by all the elements its rule matches) was modified while computed values were read: every later element matched by the rule computes from the modified value",
        "12": "the recorded font metrics (oracle input for ex / ch) are not those of a font of the harness (Ahem 0.8 / 1, weasyprint.otf 0.7998 / 1): text.CharacterRatio measured with an empty cache is off",
        "13": "pr.TextRatioCache.Get after a sequence of Sets differs from the model's two maps (rc_get / rc_set): a ratio stored for one unit / font description is returned for another",
        "14": "vertical-align: <percentage>: the recorded computed value is not that percentage of the element's own line height (valign_percent of the model's computed font-size / line-height; line-height: normal skipped)",
        "9": "Get panicked and so does the model: outside the hypotheses of C04_get_total (ill-typed value) or C04_get_total broken",
    },
    "theorems_for_kind": {
        "doc": "C04_cache_transparent / C04_cache_transparent_with_copies / C04_copy_computes_like_source (C src dst ops) / C04_anonymous_spec / C04_propagated_equations (text decorations of anonymous boxes) / C04_defaulting_equations / C04_get_total / C04_length_spec / C04_box_computers_spec (line-height %) / C04_font_size_relative_spec (font-size %) / C04_vertical_align_percent_spec / C04_length_font_metrics_spec (ex, ch) / C04_bleed_auto_spec",
        "corpus": "C04_cache_transparent / C04_get_spec / C04_get_total",
        "ratio-cache": "C04_ratio_cache_get_set / C04_ratio_cache_transparent",
        "build-panic": "C04_get_total",
        "worker-fatal": "C04_get_total / C04_every_history_returns_computed (the process died while styles were built or read)",
        "worker-hang": "C04_get_total (termination)",
        "tables": "tie of Generated/PropTables.v (C04_property_tables_spec, C04_unit_table_correct, C04_font_tables_spec)",
    },
    "rule": "SplitMix64-seeded documents (random element tree depth <= 5, default HTML5 UA stylesheet, style attributes / type rules / class rules shared by several elements with em-rem-ex-ch lengths, percentages and translate() / pseudo-element rules / @page rules (marks crop|cross|both|none, bleed, size) declaring inherit, initial or validator-accepted explicit values for properties drawn from all of them; a percentage pool (150%, 50%, 33.3%, -20%, 0% ...) for every property whose grammar has a <percentage> (line-height, font-size, vertical-align, text-indent, widths / heights / margins / paddings / offsets, gaps, spacing, radii, transform-origin, background-position/size): in a quarter of the style attributes, a quarter of the class-rule declarations and 15% of all random lengths; two @font-face families mapped per document to Ahem or weasyprint.otf, font-family / font-size varied per element), each built after a twin document of the same process whose @font-face sources are exchanged; then a random history of Get calls (directed at declared, font-relative and page properties) and late constructions (page contexts, margin boxes, anonymous styles, the latter asked at once for text-decoration-line/-color/-style, page and inherited properties; text-decoration shorthand / longhands with non-initial colour and style on a fifth of the elements) and of Copy() calls on element / pseudo-element / page / anonymous styles at random points of the history (about 4% of the operations, preferring styles with em/rem/ex/ch/% declarations; Gets directed at the copy -- properties cached before the copy or not -- and at its source afterwards; the copy is a duplicate node of the model tree); the cascaded declarations are read before and after the history; one case per document; non-trivial = at least one cascaded declaration; distinct by seed",
}
MANIFEST = {
    "text": "Coq theorems over a state-machine model of ComputedStyle/AnonymousStyle.Get with its per-style cache and of style construction: every well-formed history of constructions and Gets returns the cache-free computed value (C04_cache_transparent), which satisfies the CSS Cascade 4 section 7 defaulting equations (C04_defaulting_equations, propagated / anonymous variants), copies made at any point of a history compute what their source computes (C04_cache_transparent_with_copies, C04_copy_computes_like_source), totality on well-typed trees incl. root, pseudo-elements, pages, anonymous boxes (C04_get_total; refuted for the code before the fixes), exact unit table, inherited / initial tables equal to the lists transcribed from CSS, em/rem/percent/keyword rules for lengths, font-size, font-weight, border widths, line-height (also at the level of computed: a percentage is the absolute length of the own font size and is inherited as that length), vertical-align percentages of the own line height (audit of the recorded result), display/float, ex/ch against the recorded x-height / 0-advance ratios of the style's own font and its own font size (C04_length_font_metrics_spec), bleed: auto against marks: crop (C04_bleed_auto_spec); tables regenerated from the source text on every run and audited entry by entry; float32 instance of the model compared with /repo on random real documents and random access histories; the typing hypotheses (wt_tree) are evaluated on every document",
    "note": "Trusted: Coq kernel (vm_compute), gen_c04 translator (cross-checked against runtime tables), Go harness + hook html/tree/verif_export_c04.go, F32 rounding model, the transcription of the CSS inherited list. Partial: computer functions for images/gradients/grid/content/transform, vertical-align % and var() substitution are inputs (oracle read on a separately built copy): only their defaulting/inheritance/caching is checked; font metrics (x-height, 0-advance ratios) are recorded inputs measured without cache and checked against the documented metrics of Ahem / weasyprint.otf; the cascaded declarations must be unchanged after the history (code 11).",
    "technique": "Coq proof over executable state-machine model + source-to-Coq table translator + vm_compute correspondence with the Go implementation",
}
