SPEC = {
    "id": "C12",
    "harness": "c12",
    "n": {"quick": 1500, "thorough": 30000},
    "shard": 100,
    "trusted_base": [],
    "not_modelled": [],
    "codes": {},
    "theorems_for_kind": {},
    "rule": "",
}
MANIFEST = {"text": "", "note": "", "technique": "Coq proof over executable model + vm_compute correspondence with the Go implementation"}
