SPEC = {
    "id": "C03",
    "harness": "c03",
    "n": {"quick": 3300, "thorough": 80000},
    "shard": 200,
    "trusted_base": [
        "/repo hook html/tree/verif_export_c03.go (VerifC03NewCSS = newCSS with a fetcher/media type, VerifC03Precedence, VerifC03WeightLess, VerifC03Matcher)",
        "HTML parsing (x/net/html) and CSS tokenising/selector parsing of /repo: the harness prints each generated AST as text and reads the element structure back from the parsed DOM",
        "selector matching/specificity of the small fragment used (tag, class, id, *, compound, descendant, child, :is()) is modelled directly in Css/Cascade.v (C05 owns selectors)",
    ],
    "not_modelled": [
        "@page cascade (addPageDeclarations)", "nested rules under a parent selector with a pseudo-element (the code drops the whole parent rule on the selector error)",
        "`&` in a top-level rule is outside the domain of model = spec (hypothesis doc_no_top_amp): the faithful model weighs it (0,1,0) like the code, the specification 0; refuted statement C03_top_level_amp_refuted, documents of the `topamp` stream are compared with the specification (known finding C03/top-level-amp-specificity)",
        "invalid selectors / declarations (dropped before the cascade: C08)", "media queries other than media types (rejected as a whole by parseMediaQuery)",
        "@layer, @scope, @supports (skipped by preprocessStylesheet)", "UA !important declarations are ranked as plain UA declarations (CSS 2.1 table, as in the property text)",
    ],
    "codes": {"1": "the computed style does not hold the declaration the cascade specification selects",
              "3": "declarationPrecedence differs from the model's table", "4": "weight.Less differs from the model",
              "5": "the flattened rule list (order, specificities, declarations) differs from flatten_rules",
              "6": "the computed style agrees with the model but differs from the SPECIFICATION (documents with `&` in a top-level rule, outside the model = spec theorem; if it differs from the model too the code is 1)"},
    "theorems_for_kind": {
        "imports": "C03_cascade_with_url_imports / C03_import_substitution / C03_import_contribution",
        "pair": "C03_cascade_impl_spec", "triple": "C03_cascade_impl_spec", "random": "C03_cascade_impl_spec", "corpus": "C03_cascade_impl_spec",
        "precedence": "C03_precedence_table_correct", "less": "C03_weight_less_is_le", "flatten": "C03_flatten_preserves_order / C03_media_filter_sound / C03_import_substitution",
        "topamp": "C03_cascade_unrestricted_statement (refuted: C03_top_level_amp_refuted)",
    },
    "rule": "corpus first; declarationPrecedence exhaustively; weight.Less on random/boundary weights; flattened matcher of random sheets; every ordered pair (thorough: x all placements, and every triple) of competing declarations over origin x importance x {hint attribute, hint sheet, (0,0,1), (0,1,0), (0,1,1), (1,0,0), (2,0,0), style attribute} x placement {plain, matching @media, non-matching @media, @import, nested &, nested list} x {same sheet, different sheets}; import graphs (2-3 files with one competing declaration each, of one level and one specificity, importing one another and themselves; one or two top-level sheets importing them 2-4 times under different media, the same URL several times, a rule ending the prologue, a file also used as <link>); top-level `&` against 9 rival selectors in both orders (compared with the specification); random documents (1-3 properties, 0-3 author sheets as <style>/<link>, UA, hint and user sheets, @import by URL (own files, 404, 1-3 shared files that import one another / themselves and are imported several times, the same URL repeated in a prologue), nested rules, style and presentational attributes, ::before/::after/::marker selectors in a third of them, print/screen); non-trivial = some declaration wins on some element; distinct by Coq term",
}
MANIFEST = {
    "text": "Coq theorem cascade_impl_spec: the model of newStyleFor/preprocessStylesheet/PreprocessDeclarationsPrelude (insertion loops guarded by weight.Less, sheet order, @import/@media/nesting flattening) returns, for every document, element or pseudo-element and property, the arg-max of (origin+importance level, specificity rank with style attribute on top and hints at zero, order of appearance) among the declarations that apply; plus precedence table, Less = <=, flatten order, media filtering, total order; @import by URL with the cycle guard (sheets name their imports, the fetcher is a table: flattening = flattening of the sheet with every @import replaced by what it serves, a sheet imported twice stands twice, an import closing a cycle is dropped, the guard does not leak to sibling imports). The model is compared with /repo on generated documents on every run (computed style read back through unique integer values).",
    "note": "Trusted: Coq kernel, Go harness + hook html/tree/verif_export_c03.go, HTML/CSS parsing and the selector fragment's matching. Partial: @page, top-level `&`, invalid input are outside the model.",
    "technique": "Coq proof over executable model + vm_compute correspondence with the Go implementation",
}
