SPEC = {
    "id": "C18",
    "harness": "c18",
    "n": {"quick": 2000, "thorough": 40000},
    "shard": 200,
    "trusted_base": [
        "Base/F32.v rounding model (validated on every run by C17's CRound/CArith cases)",
        "strconv.ParseFloat: accepted decimal syntax and correct rounding to binary32 are entered in the model (parse_float, cv_f32) as library behaviour",
        "x/net/html parsing of the generated documents; the recording backend of go/vlib/render",
        "/repo hooks svg/verif_export_c18.go (VerifParsePath, VerifParsePoints) and svg/verif_export.go (VerifViewboxTransform)",
    ],
    "not_modelled": ["interior control points of arcs (addArc / findEllipseCenter): an arc is checked to be a non-empty run of cubics ending exactly at the given point",
                     "control points of the rect / ellipse corner approximations (only on-curve points are compared)",
                     "units and percentages in shape attributes (plain user-unit numbers only)", "stroke / fill painting, text, images, filters"],
    "codes": {"1": "backend path operations differ from the float32 instance of the model",
              "2": "model value outside binary32 range (skipped)",
              "3": "a legal spelling of the abstract command list is not lexed back to it (number grammar / separators)",
              "4": "implementation panicked, died or hung where the model terminates normally",
              "5": "accept / reject differs on a legal input",
              "6": "viewBox transform differs"},
    "theorems_for_kind": {
        "path": "C18_path_string_spec (C18_path_interp_spec + C18_lex_spec / C18_lex_arc_spec)", "bad": "C18_svg_parse_total",
        "points": "C18_lex_spec / C18_lex_arc_spec", "viewbox": "C18_viewbox_spec", "viewbox-doc": "C18_viewbox_spec",
        "shapes": "C18_shapes_spec_rect / _ellipse / _line_poly, C18_parse_poly_spec", "use": "C18_use_graph_terminates", "refs": "C18_use_graph_terminates (drawing-time references)",
    },
    "rule": "SplitMix64-seeded generators: abstract path command lists (all commands, 1-3 argument groups, arcs with zero radii / identical end points) printed with random legal concrete syntax (separators, glued signs and dots, exponents, arc flags without separators); mutated / random malformed path data; number lists; viewBox x preserveAspectRatio x viewport; whole documents (shapes, <use> graphs and paint-server / marker / clipPath / mask graphs with cycles and dangling ids) through svg.Parse + Draw in watchdog-ed worker processes; distinct by Coq term (documents: by source text)",
}
MANIFEST = {
    "text": "Coq theorems (path interpreter = SVG 1.1 section 8.3 denotational semantics on every command list, lexer totality and number grammar, arc end points, shape outlines, viewBox transform, termination of reference following on every graph) over the exact-rational instance of a model whose float32 instance is compared bit-for-bit with /repo on generated inputs on every run",
    "note": "Trusted: Coq kernel (vm_compute), F32 rounding model, strconv.ParseFloat as library behaviour, Go harness + hooks. Partial: arc interiors and corner approximations are not modelled; units/percentages in shape attributes are not generated.",
    "technique": "Coq proof over executable model + vm_compute correspondence with the Go implementation",
}
