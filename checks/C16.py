SPEC = {
    "id": "C16",
    "harness": "c16",
    "n": {"quick": 1000, "thorough": 20000},
    "shard": 100,
    "skip_codes": (2, 7),
    "trusted_base": [
        "sort.SliceStable's contract (result sorted by less, a permutation, equal elements keep their order) is trusted, not its algorithm: Base/SortStable.v proves that the contract determines the result (C16_stable_sort_unique), the model uses the insertion sort proved to satisfy it",
        "the projection of the laid-out Go box tree to Draw/Stacking.v's abstract `box` (go/cmd/c16/main.go `project`: Go type -> kind, style predicates position/z-index/float/opacity/transform/overflow, AbsolutePlaceholder unwrapped, which of a box's events can reach the backend) and the translation of the backend trace to events (fills / texts named by the unique colours the generator gives every element, opacity groups by their unique opacity value, transforms by their unique translation, overflow clips by the padding-box rectangle of the clipping box)",
        "/repo hook html/document/verif_export_c16.go (Page.VerifPageBox)",
        "the recording backend go/vlib/render (OnNewStack nesting, NewGroup/DrawWithOpacity pairing)",
    ],
    "not_modelled": [
        "table internals: drawTable's layered backgrounds and collapsed borders (tables are excluded from generated documents; a tree containing a table / cell / row box is skipped, code 2)",
        "what a background / border / text / outline paints (colours, geometry, images, border styles): an event is the identity of the box only",
        "draw.go 216-243: viewport overflow propagated to the root element and the `clip` property of absolutely positioned boxes",
        "draw.go 253-258: a box whose transform matrix is singular paints nothing (not generated)",
        "replaced content and list markers are in the model (Content events) but not in the generated documents",
        "page margin boxes other than @top-center; multi-column rules",
    ],
    "codes": {
        "1": "the sequence of fills / texts / Push-Pop the backend received differs from the model's paint(from_page ...) on the same laid-out tree",
        "2": "tree contains table boxes (not modelled), skipped",
        "3": "the model panics (drawInlineLevel 'unexpected box') but the implementation did not",
        "4": "the implementation panicked while drawing; the model does not",
        "5": "implementation = model, but both differ from Appendix E instantiated with the implementation's stacking contexts (contradicts C16_paint_page_spec unless the tree is outside wf_shape)",
        "8": "a statement of Properties/C16.v that is proved only in part (C16_every_box_painted_once_statement, C16_per_box_order_statement, C16_effects_bracket_subtree_statement) is FALSE on the model's events of this tree (unique ids)",
        "7": "all comparisons agree but the laid-out tree is outside wf_shape (hypothesis of the theorems): informational, counted as skipped",
        "6": "implementation = model = Appendix E with overflow != visible forming a stacking context, but the order of fills/texts differs from Appendix E with CSS's own stacking contexts (known finding overflow-forms-stacking-context)",
    },
    "theorems_for_kind": {
        "gen": "C16_paint_page_spec / C16_paint_order_spec / C16_stable_partition_sort",
        "corpus": "C16_paint_page_spec / C16_paint_order_spec / C16_stable_partition_sort",
    },
    "rule": "SplitMix64-seeded generator of documents: nests (depth <= 7, 3-40 elements) of div / span / inline-block / inline-flex / flex / floats with position (relative, absolute, fixed), z-index drawn from multisets with ties, negatives, 0 and auto (also on non-positioned boxes), opacity, transform, overflow, outlines, blocks inside inlines, negative margins (overlap), z-index on the root element, a page margin box; every element has unique background / border / text / outline colours; one case per rendered page; regression corpus corpus/C16/*.html first; non-trivial = at least two boxes forming stacking contexts; distinct by Coq term",
}
MANIFEST = {
    "text": "Coq theorems over an executable port of NewStackingContext / NewStackingContextFromBox / drawStackingContext: for every well-shaped box tree paint(from_box b) = CSS 2.1 Appendix E (C16_paint_order_spec, C16_paint_page_spec: own background+border, negative-z contexts ascending with ties in tree order, in-flow blocks, floats atomically, inline content with inline-blocks atomic, positioned z-auto/0 and opacity/transform contexts in tree order, positive-z ascending, outlines; opacity/transform bracket the whole sub-tree, overflow clip its content), the three context lists are the spec's classes in (z, tree) order for ANY function meeting sort.SliceStable's contract (C16_stable_partition_sort, C16_stable_sort_unique), no panic, background immediately before border, Push/Pop balanced; the model is compared on every run with the event sequence /repo's real pipeline sends to a recording backend for generated documents with uniquely coloured boxes",
    "note": "Trusted: Coq kernel (vm_compute), sort.SliceStable contract, Go harness projection (box tree -> abstract tree, trace -> events), hook html/document/verif_export_c16.go. Partial: overflow != visible is taken to form a stacking context as the implementation does (deviation from CSS reported as known finding C16/overflow-forms-stacking-context, code 6); every_box_painted_once / per_box_order (beyond bg-before-border) / exact bracket contents are stated (Definition ..._statement) and proved only in part; tables not modelled.",
    "technique": "Coq proof over executable model + vm_compute correspondence with the Go implementation",
}
