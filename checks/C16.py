"""C16 -- Boxes are painted in CSS stacking order.

Besides the generic pipeline (lib/corr.run_check) the `pre` step runs the
source-level tie go/cmd/c16/sortscan on /repo's working tree: every call of a
sorting function on the z-index lists of html/document/stacking.go is listed
with file:line and turned into the Coq obligation `sort_sites_ok sites = true`
(Check/C16.v; generated file .work/C16/SortSites.v, compiled on every run): the
theorems of Properties/C16.v hold for any sort meeting sort.SliceStable's
contract, so a call of a sort without the stability contract leaves their
hypothesis undischarged.  The offending sites are reported at the end of the
run, as `no-failing-input-found` only when the runtime stream (documents with
13-40 tied child contexts per list) found no concrete failing input.
"""
import json
import os
import sys

ROOT = os.path.dirname(os.path.dirname(os.path.abspath(__file__)))
sys.path.insert(0, ROOT)
from lib import corr  # noqa: E402

SCAN_BIN = os.path.join(corr.WORK, "bin", "c16sortscan")
SCAN_JSON = os.path.join(corr.WORK, "C16", "sortsites.json")
SCAN_COQ = os.path.join(corr.WORK, "C16", "SortSites.v")


def pre(rep):
    os.makedirs(os.path.join(corr.WORK, "C16"), exist_ok=True)
    os.makedirs(os.path.dirname(SCAN_BIN), exist_ok=True)
    cov = {}
    rc, out = corr.sh(["go", "build", "-o", SCAN_BIN, "./cmd/c16/sortscan"], cwd=os.path.join(ROOT, "go"), env=corr.GOENV, timeout=600)
    if rc != 0:
        rep.violation({"property": "C16", "broken_tie": "go/cmd/c16/sortscan does not build", "log_tail": out[-2000:]},
                      name="sortscan-build", no_input=True)
        return {"coverage": cov}
    for f in (SCAN_JSON, SCAN_COQ):
        if os.path.exists(f):
            os.remove(f)
    rc, out = corr.sh([SCAN_BIN, "-repo", corr.REPO, "-json", SCAN_JSON, "-coq", SCAN_COQ], timeout=300)
    if rc != 0:
        rep.violation({"property": "C16", "broken_tie": "go/cmd/c16/sortscan failed on /repo's working tree (html/document does not parse, or stacking.go is gone)",
                       "log_tail": out[-2000:]}, name="sortscan-run", no_input=True)
        return {"coverage": cov}
    sites = json.load(open(SCAN_JSON)).get("sites") or []
    unstable = [s for s in sites if not s["stable"]]
    missing = [name for bit, name in ((1, "negativeZContexts"), (2, "positiveZContexts"))
               if not any(s["stable"] and s["list"] & bit for s in sites)]
    cov["sort_call_sites"] = {"sites": ["%s:%d %s(%s)" % (s["file"], s["line"], s["call"], s["arg"]) for s in sites],
                              "unstable": len(unstable), "lists_without_stable_sort": missing}
    orig_finish = rep.finish

    def finish(level, coverage, assumptions):
        runtime = list(rep.violations)
        # the generated obligation, checked by Coq (needs Check/C16.vo, built by now)
        rc2, out2 = corr.sh(["coqc", "-Q", "theories", "Verif", "-w", "none", "-o", SCAN_COQ[:-2] + ".vo", SCAN_COQ],
                            cwd=corr.COQ, timeout=600)
        coverage.setdefault("sort_call_sites", cov.get("sort_call_sites", {}))["coq_obligation_stacking_sorts_are_stable"] = (rc2 == 0)
        have_check = os.path.exists(os.path.join(corr.COQ, "theories", "Check", "C16.vo"))
        if have_check and (rc2 == 0) != (not unstable):
            rep.violation({"property": "C16", "broken_tie": "sortscan's JSON report and its generated Coq obligation disagree",
                           "sites": sites, "coqc_tail": out2[-1500:]}, name="sortscan-inconsistent", no_input=True)
        if unstable:
            why = "theorem hypothesis `z_then_tree_order css_level zsort` (C16_stable_partition_sort, C16_paint_order_spec, C16_paint_page_spec) " \
                  "is no longer discharged for the code: the obligation stacking_sorts_are_stable (sort_sites_ok sites = true) fails"
            for s in unstable[:4]:
                rep.violation({"property": "C16",
                               "broken": "%s is called on a z-index list; its contract does not include stability "
                                         "(equal z-index must keep tree order: CSS 2.1 Appendix E steps 3 and 9); %s" % (s["call"], why),
                               "site": "%s:%d" % (s["file"], s["line"]), "call": "%s(%s, ...)" % (s["call"], s["arg"]), "function": s["func"],
                               "failing_inputs_found_by_runtime_stream": runtime,
                               "how_to_replay": "/verif/.work/bin/c16sortscan -repo /repo -json /dev/stdout"},
                              name="sortsite-%s-%d" % (s["file"].replace("/", "_"), s["line"]), no_input=not runtime)
        return orig_finish(level, coverage, assumptions)
    rep.finish = finish
    return {"coverage": cov}


SPEC = {
    "id": "C16",
    "harness": "c16",
    "n": {"quick": 1000, "thorough": 20000},
    "shard": 100,
    "pre": pre,
    "skip_codes": (2, 7),
    "trusted_base": [
        "source-level tie go/cmd/c16/sortscan is SYNTACTIC (go/parser): it sees calls sort.X / slices.X in html/document/stacking.go and calls elsewhere in the package whose arguments name negativeZContexts / positiveZContexts; a hand-written or aliased sort is only caught by the runtime stream of wide stacking contexts",
        "sort.SliceStable's contract (result sorted by less, a permutation, equal elements keep their order) is trusted, not its algorithm: Base/SortStable.v proves that the contract determines the result (C16_stable_sort_unique), the model uses the insertion sort proved to satisfy it",
        "the projection of the laid-out Go box tree to Draw/Stacking.v's abstract `box` (go/cmd/c16/main.go `project`: Go type -> kind, style predicates position/z-index/float/opacity/transform/overflow, AbsolutePlaceholder unwrapped, which of a box's events can reach the backend) and the translation of the backend trace to events (fills / texts named by the unique colours the generator gives every element, opacity groups by their unique opacity value, transforms by their unique translation, overflow clips by the padding-box rectangle of the clipping box)",
        "/repo hook html/document/verif_export_c16.go (Page.VerifPageBox)",
        "the recording backend go/vlib/render (OnNewStack nesting, NewGroup/DrawWithOpacity pairing) wrapped by go/cmd/c16/tagged.go: every call is attributed to the canvas it was made on, and the compared observable is what reaches the PAGE (events made on a group that is never composited by DrawWithOpacity, directly or through enclosing groups, are dropped as lost)",
        "which transform lists are not invertible is decided by the harness from the computed style (translate / scale / matrix functions with small integer linear parts: a factor with determinant 0), not read back from /repo's matrix code",
    ],
    "not_modelled": [
        "table internals: drawTable's layered backgrounds, cell borders and collapsed borders (the model stands for them by one TableLayers event, dropped before the comparison; generated tables have no background / border on any table part; a tree with a decorated table part is skipped, code 2). The dispatch bookkeeping of cells (blocksAndCells only) and their step-7 content ARE modelled and compared",
        "what a background / border / text / outline paints (colours, geometry, images, border styles): an event is the identity of the box only",
        "draw.go 216-243: viewport overflow propagated to the root element and the `clip` property of absolutely positioned boxes",
        "replaced content and list markers are in the model (Content events) but not in the generated documents",
        "page margin boxes other than @top-center; multi-column rules",
    ],
    "codes": {
        "1": "the sequence of fills / texts / Push-Pop that reached the page (events painted on a group that is never composited are lost) differs from the model's paint(from_page ...) on the same laid-out tree",
        "2": "tree contains a table part (table, row group, row, cell, column) with a visible background or border (drawTable's layers are not modelled), skipped",
        "10": "tree with a table: the TEXT events (Appendix E step 7: line content of blocks and table cells, in tree order) that reached the page are not in the model's order",
        "3": "the model panics (drawInlineLevel 'unexpected box') but the implementation did not",
        "4": "the implementation panicked while drawing; the model does not",
        "5": "implementation = model, but both differ from Appendix E instantiated with the implementation's stacking contexts (contradicts C16_paint_page_spec unless the tree is outside wf_shape)",
        "8": "a statement of Properties/C16.v that is proved only in part (C16_every_box_painted_once_statement, C16_per_box_order_statement, C16_effects_bracket_subtree_statement) is FALSE on the model's events of this tree (unique ids)",
        "7": "all comparisons agree but the laid-out tree is outside wf_shape (hypothesis of the theorems): informational, counted as skipped",
        "6": "implementation = model = Appendix E with overflow != visible forming a stacking context (code 5's comparison succeeded), the tree contains an overflow != visible box that is not a CSS stacking context, and the order of fills/texts differs from Appendix E with CSS's own stacking contexts ONLY by events of the sub-trees of those boxes (known finding overflow-forms-stacking-context)",
        "9": "implementation = model = Appendix E with the implementation's stacking contexts, but the order of fills/texts differs from Appendix E with CSS's own stacking contexts in a way NOT confined to the sub-trees of overflow != visible boxes (or without any such box: contradicts C16_overflow_only_difference)",
    },
    "theorems_for_kind": {
        "gen": "C16_paint_page_spec / C16_paint_order_spec / C16_stable_partition_sort / C16_singular_confined",
        "corpus": "C16_paint_page_spec / C16_paint_order_spec / C16_stable_partition_sort",
    },
    "rule": "SplitMix64-seeded generator of documents: nests (depth <= 7, 3-40 elements) of div / span / inline-block / inline-flex / flex / floats with position (relative, absolute, fixed), z-index drawn from multisets with ties, negatives, 0 and auto (also on non-positioned boxes), opacity, transform (translations, and non-invertible matrices scale(0) / scale(1,0) / matrix(1,2,2,4,0,0) ... alone, with opacity < 1 (the hidden state opacity+scale(0)) and with overflow, on boxes with content and with boxes painted after them), overflow, outlines, blocks inside inlines, negative margins (overlap), z-index on the root element, a page margin box, simple tables (1-2 rows of 1-3 cells without backgrounds / borders on table parts, cells holding text and generated blocks, some cells positioned / with opacity, captions, blocks before, inside and after the table); every element has unique background / border / text / outline colours; one case per rendered page; regression corpus corpus/C16/*.html first; non-trivial = at least two boxes forming stacking contexts; distinct by Coq term",
}
MANIFEST = {
    "text": "Coq theorems over an executable port of NewStackingContext / NewStackingContextFromBox / drawStackingContext: for every well-shaped box tree paint(from_box b) = CSS 2.1 Appendix E (C16_paint_order_spec, C16_paint_page_spec: own background+border, negative-z contexts ascending with ties in tree order, in-flow blocks, floats atomically, inline content with inline-blocks atomic, positioned z-auto/0 and opacity/transform contexts in tree order, positive-z ascending, outlines; opacity/transform bracket the whole sub-tree, overflow clip its content; a box with a non-invertible transform paints nothing of its sub-tree and changes nothing else: C16_singular_confined), the three context lists are the spec's classes in (z, tree) order for ANY function meeting sort.SliceStable's contract (C16_stable_partition_sort, C16_stable_sort_unique), no panic, background immediately before border, Push/Pop balanced; the model is compared on every run with the event sequence /repo's real pipeline sends to a recording backend for generated documents with uniquely coloured boxes",
    "note": "Trusted: Coq kernel (vm_compute), sort.SliceStable contract, Go harness projection (box tree -> abstract tree, trace -> events), hook html/document/verif_export_c16.go. Partial: overflow != visible is taken to form a stacking context as the implementation does (deviation from CSS reported as known finding C16/overflow-forms-stacking-context, code 6); every_box_painted_once / per_box_order (beyond bg-before-border) / exact bracket contents are stated (Definition ..._statement) and proved only in part; drawTable's layers not modelled (tables compared on everything else).",
    "technique": "Coq proof over executable model + vm_compute correspondence with the Go implementation",
}
