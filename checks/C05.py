SPEC = {
    "id": "C05",
    "harness": "c05",
    "n": {"quick": 320, "thorough": 4000},
    "shard": 24,
    "tie_codes": (),      # every code of Check/C05.v is an observable the property determines: always a failing input

    "harness_args": lambda tier: ["-per", "12"],
    "trusted_base": [
        "golang.org/x/net/html parsing: the tree it produced is dumped by the harness and is the model's input",
        "DataAtom abstraction (Css/Sel.v header): for element nodes DataAtom = atom.Lookup(Data) in the HTML namespace, 0 for other nodes; asserted by the harness on every dumped tree (documents violating it are dropped)",
        "strings.EqualFold / strings.ToLower modelled on ASCII: generators keep operands of i-flag selectors ASCII",
        "/repo hook css/selector/verif_export_c05.go (VerifDumpGroup: structure of a parsed selector)",
    ],
    "not_modelled": ["regexp / text extensions ([a#=re], :matches, :matchesOwn, :contains, :containsOwn)", "Unicode case folding beyond ASCII in i-flag matching", "non-HTML namespaces (foreign content)", "Go stack exhaustion on pathologically nested selectors"],
    "codes": {"1": "match result (bit mask over all nodes in document order) differs from the model", "3": "specificity differs", "4": "pseudo-element differs",
              "5": "ParseGroup disagrees with the parser model (error vs success, or structure)", "6": "String() differs from the printer model",
              "7": "String() does not re-parse to an equivalent selector", "8": "the implementation panicked", "9": "malformed case"},
    "theorems_for_kind": {},
    "rule": "SplitMix64-seeded: random HTML documents (<= 34 generated nodes, 6-tag pool + form controls, text/comment nodes between elements, attributes with empty/blank/multi-space/mixed-case values, doctype/comment before <html>) parsed by x/net/html; 12 selector groups per document generated from the grammar to depth 3 (a in [-4,4], b in [-6,6], all attribute operators with/without i, :not/:is/:has/:haschild, all combinators, pseudo-elements), one document in five with the boundary stream (escapes, comments, random damage => parse errors); corpus first; thorough adds the exhaustive small-bounds stream; non-trivial = some selector matches some but not all elements",
}
MANIFEST = {
    "text": "Coq theorems over a line-by-line Gallina port of css/selector (all Match methods, Specificity, parser, String): an+b arithmetic with Go's truncating % and / equals 'exists n >= 0, i = a*n+b' for all integers; the match function equals the Selectors-4 relational specification on every element of every tree (stated DOM invariants of html.Parse as hypotheses; :has with combinators in its argument and blank-attribute substring matching are proved deviations); specificity = (ids, classes+attributes+pseudo-classes, types+pseudo-elements) with max over :is/:not/:has arguments and a strict total order; the parser never panics and terminates for every input; print/parse round trip for the proved fragment. The port is compared with /repo on every run (match masks, specificity, pseudo-element, parse structure, String(), re-parse equivalence) on generated documents x selectors.",
    "note": "Trusted: Coq kernel (vm_compute), x/net/html (its output tree is the model's input), DataAtom abstraction (asserted per tree), ASCII-only case folding, harness + hook css/selector/verif_export_c05.go. Partial: :lang/:link/:enabled/:disabled/:checked are host-language pseudo-classes outside the property text: ported and compared, their specification is the port itself; parse(print s) round trip proved for a fragment only (full statement kept, checked per case by the tie).",
    "technique": "Coq proof over executable model + vm_compute correspondence with the Go implementation",
}
