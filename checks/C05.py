SPEC = {
    "id": "C05",
    "harness": "c05",
    "n": {"quick": 200, "thorough": 3000},
    "shard": 14,
    "tie_codes": (),      # every code of Check/C05.v is an observable the property determines: always a failing input

    "harness_args": lambda tier: ["-per", "14"],
    "trusted_base": [
        "golang.org/x/net/html parsing: the tree it produced is dumped by the harness and is the model's input",
        "DataAtom abstraction (Css/Sel.v header): for element nodes DataAtom = atom.Lookup(Data) in the HTML namespace, 0 for other nodes; asserted by the harness on every dumped tree (documents violating it are dropped)",
        "strings.EqualFold / strings.ToLower modelled on ASCII: generators keep operands of i-flag selectors ASCII",
        "/repo hook css/selector/verif_export_c05.go (VerifDumpGroup: structure of a parsed selector)",
    ],
    "not_modelled": ["regexp / text extensions ([a#=re], :matches, :matchesOwn, :contains, :containsOwn)", "Unicode case folding beyond ASCII in i-flag matching", "non-HTML namespaces (foreign content)", "Go stack exhaustion on pathologically nested selectors"],
    "codes": {"1": "match result (bit mask over all nodes in document order) differs from the model", "3": "specificity differs", "4": "pseudo-element differs",
              "5": "ParseGroup disagrees with the parser model (error vs success, or structure)", "6": "String() differs from the printer model",
              "7": "String() does not re-parse to an equivalent selector", "8": "the implementation panicked", "9": "malformed case, or the dumped tree violates the invariants assumed of html.Parse",
              "11": "Specificity.Less / Specificity.Add on a pair of triples differs from the lexicographic order / the column-wise sum (C05_specificity_less_lex)",
              "10": "a parsed selector is outside SelRoundtrip.normal_group, or the model's print/parse round trip changes it",
              "20": "known deviation from Selectors 4 still present: :has() argument with a combinator is not anchored below the :has element (C05_has_relative_refuted)",
              "21": "known deviation from Selectors 4 still present: [a^=v] never matches a blank attribute value (C05_blank_attr_refuted)"},
    "theorems_for_kind": {},
    "rule": "SplitMix64-seeded: 6 x 48 pairs of specificity triples (columns around 10, 100, 256, 1000, 65536) given to Specificity.Less/Add; random HTML documents (<= 34 generated nodes; per document a tag profile: HTML tags only / one element in three unknown to the atom table (custom elements) / mostly 3 unknown names; mixed-case tag spelling; 6-tag pool + form controls, text/comment nodes between elements, attributes with empty/blank/multi-space/mixed-case values, doctype/comment before <html>) parsed by x/net/html; 14 selector groups per document: 7 guided by a real element (its name/attributes/actual sibling index, a = 0 one time in five), 1 with competing :is/:not/:has arguments of prescribed specificity (a column of 9..13, rarely ~20/~100/~256, against one unit in a more significant column), 1 with relative pseudo-classes nested to depth 0..3 and a pseudo-element at ONE position of the derivation (3/4 inside an argument), 1/2 with junk / a removed bracket / a cut at one position of a nested derivation, the rest from the grammar to depth 3 (a in [-4,4], b in [-6,6], all attribute operators with/without i, :not/:is/:has/:haschild, all combinators, pseudo-elements), one document in five with the boundary stream (escapes, comments, random damage => parse errors); corpus first; thorough adds the exhaustive small-bounds stream; non-trivial = some selector matches some but not all elements",
}
MANIFEST = {
    "text": "Coq theorems over a line-by-line Gallina port of css/selector (every Match method, Specificity, the parser, String()): an+b with Go's truncating % and / equals 'exists n >= 0, i = a*n+b' for all integers, and the a = 0 fast paths equal the general path; on every tree satisfying the invariants of html.Parse (checked on each dumped tree) and every selector outside two proved deviations, the match function equals the Selectors-4 relational specification (type/universal/class/id/attribute operators with the i flag, the four combinators, :nth-*(an+b), :first/last/only-*, :root, :empty, :not/:is/:has, lists) at every node; specificity = (ids, classes+attributes+pseudo-classes, types+pseudo-elements) with the maximum over :is/:not/:has arguments, Less a strict total order; Less is not a positional weight in any base (and :is/:not/:has weigh as an argument no other argument exceeds, for columns of any size); ParseGroup returns a group or an error for every byte string (no panic, terminates), only returns normal-form groups and never a pseudo-element inside an :is/:not/:has argument at any depth; print/parse round trip proved on an explicit family of 20 526 selector groups. The port is compared with /repo on every run on generated documents x selectors: accept/reject and parse structure (also on every rejected input), match masks over all nodes, specificity, pseudo-element, String(), re-parse.",
    "note": "Trusted: Coq kernel (vm_compute), x/net/html (the tree it built is the model's input), the DataAtom abstraction (asserted per tree), ASCII-only case folding for the i flag, the Go harness + hook css/selector/verif_export_c05.go. Partial: the full match statement is refuted for :has() arguments containing a combinator and for [a^=v]/[a$=v]/[a*=v] on blank attribute values (C05_has_relative_refuted, C05_blank_attr_refuted; known findings, witnesses replayed on /repo each run); :lang/:link/:enabled/:disabled/:checked/:input are outside the property text (ported and compared; their specification is the port); the general print/parse round trip is a stated Definition, proved on the explicit family and evaluated by the tie on every parsed selector.",
    "technique": "Coq proof over executable model + vm_compute correspondence with the Go implementation",
}
