SPEC = {
    "id": "C11",
    "harness": "c11",
    "n": {"quick": 4000, "thorough": 60000},
    "model_out": "model_out",
    "tie_codes": (),   # every code of Check/C11.v is a failing input: the compared observables are determined by the property (C11_break_unique)
    "shard": 250,
    "trusted_base": [
        "the projection of go/cmd/c11 (documented at the top of go/cmd/c11/main.go and in notes/C11.md): item list read from /repo's box tree before layout (hook html/layout/verif_export_c11.go: VerifBoxTree), observables read from the laid-out LineBox/TextBox/InlineBlockBox tree",
        "Ahem metrics: every glyph advances 1em, ascent 0.8em, descent 0.2em (font sizes are multiples of 5 so that these are integers)",
        "text shaping / font loading of the Pango port and of go-text (trusted library behaviour; only their line-splitting results are compared)",
    ],
    "not_modelled": [
        "the model is a specification-level greedy breaker, not a port of inline.go's splitInlineBox/breakWaitingChildren nor of the engines' splitFirstLine",
        "shaping, kerning, bidi/RTL, hyphenation, overflow-wrap/word-break other than normal",
        "vertical-align other than baseline, mixed font sizes on a line, ::first-letter/::first-line, floats, absolutely positioned boxes inside a paragraph",
        "<br> as first/last child of a span, spans whose white-space differs from their parent and that contain anything but text, negative margins",
        "real fonts: only the inequalities lines_fit / no_forbidden_break / lines_stack (monitor, kind `mon`)",
    ],
    "codes": {
        "1": "number of line boxes differs from the unique greedy partition",
        "2": "skipped: justification quotient not exactly representable",
        "3": "x / width of a text fragment or atomic box on some line differs (line partition, trailing-space removal, text-align, text-indent)",
        "4": "y / height of a line box differs (lines_stack, line_height_spec)",
        "5": "text.SplitFirstLine contract: resumeAt = 0 or 0 < resumeAt < length",
        "6": "text.SplitFirstLine first line differs from the model's first line",
        "7": "monitor (real font): a line overflows its container although it contains a break opportunity",
        "8": "monitor (real font): line boundary at a position where no break is allowed",
        "9": "monitor (real font): y_{k+1} <> y_k + h_k",
        "10": "the implementation panicked / produced no page / the projection failed",
        "21": "known finding: equals the model with the start edges before a leading space in a span dropped (Check.C11.v_lead)",
        "22": "known finding: equals the model with the collapsible space before a <br> kept (Check.C11.v_br)",
        "23": "known findings 21 and 22 together",
    },
    "theorems_for_kind": {
        "para": "C11_break_unique + C11_lines_fit / C11_greedy_maximal / C11_no_forbidden_break (partition), C11_align_spec, C11_indent_first_only, C11_lines_stack, C11_line_height_spec",
        "boundary": "C11_break_unique (partition), C11_lines_stack",
        "corpus": "C11_break_unique (partition)",
        "split": "C11_lines_fit / C11_greedy_maximal on the first line",
        "mon": "C11_lines_fit, C11_no_forbidden_break, C11_lines_stack (as inequalities on the implementation's own widths)",
    },
    "rule": "SplitMix64-seeded paragraphs (1-7 inline-level segments: words of 1-8 Ahem glyphs, nested spans up to depth 3 with random margins/borders/paddings, inline-blocks of fixed size, <br>, white-space runs) x container widths swept over {prefix sum of item widths + {-em,-1,0,1,em}} U inner stretches U multiples of em; one case per (paragraph, width); non-trivial = at least two line boxes; distinct by Coq term",
}
MANIFEST = {
    "text": "Coq theorems over a specification-level greedy line breaker (lines_fit, greedy_maximal, no_forbidden_break, break_unique => the line partition is determined; concat_lines, align_spec, indent_first_only, lines_stack, line_height_spec), tied to /repo on every run: Ahem paragraphs laid out by the real pipeline at swept container widths, compared by equality (licensed by break_unique) on line count, x/width of every text fragment and atomic box, y/height of every line; real-font stream checked against the inequalities only (monitor); text.SplitFirstLine called directly",
    "note": "Trusted: Coq kernel (vm_compute), Go harness projection (box tree before layout -> item list; laid-out tree -> fragments), Ahem metrics, text engines' shaping. Partial: the model is not a port of inline.go; shaping, bidi, hyphenation, vertical-align, mixed font sizes, floats, first-letter/first-line are outside the model; real fonts are a monitor.",
    "technique": "Coq proof over executable specification-level model + vm_compute correspondence with the Go implementation",
}
