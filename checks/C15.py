"""C15 -- Rendering is deterministic and renders do not interfere.

Besides the generic pipeline (lib/corr.run_check) the `pre` step
  1. rebuilds and runs the translator tools/globalwrites on /repo's working
     tree: coq/theories/Generated/GlobalWrites.v (every package-level var, every
     syntactic write site outside init(), the reviewed allow-list) is rewritten,
     so the theorem C15_globals_readonly is re-proved against the current
     source; write sites no allow-list line covers are reported with file:line;
  2. builds a second harness binary with `go build -race` (needs cgo + gcc) and
     hands its path to the harness, which runs the concurrent batches under the
     race detector and turns its reports into a case.
"""
import json
import os
import shutil
import sys

ROOT = os.path.dirname(os.path.dirname(os.path.abspath(__file__)))
sys.path.insert(0, ROOT)
from lib import corr  # noqa: E402

GW_DIR = os.path.join(ROOT, "tools", "globalwrites")
GW_BIN = os.path.join(corr.WORK, "bin", "globalwrites")
GW_COQ = os.path.join(corr.COQ, "theories", "Generated", "GlobalWrites.v")
GW_JSON = os.path.join(corr.WORK, "C15", "globalwrites.json")
RACE_BIN = os.path.join(corr.WORK, "bin", "c15race")

RACE_N = {"quick": "16", "thorough": "200"}
RACE_ROUNDS = {"quick": "1", "thorough": "2"}


def pre(rep):
    os.makedirs(os.path.join(corr.WORK, "C15"), exist_ok=True)
    os.makedirs(os.path.dirname(GW_BIN), exist_ok=True)
    cov = {}
    # ---- 1. translator (own module, standard library only; never run inside /repo)
    env = dict(os.environ, GOFLAGS="", GOPROXY="off", GOSUMDB="off", GOTOOLCHAIN="local", CGO_ENABLED="0")
    rc, out = corr.sh(["go", "build", "-o", GW_BIN, "."], cwd=GW_DIR, env=env, timeout=600)
    if rc != 0:
        rep.violation({"property": "C15", "broken_tie": "tools/globalwrites does not build", "log_tail": out[-2000:]},
                      name="globalwrites-build", no_input=True)
        return {"coverage": cov}
    rc, out = corr.sh([GW_BIN, "-repo", corr.REPO, "-gomod", os.path.join(ROOT, "go"), "-allow", os.path.join(GW_DIR, "allow.txt"),
                       "-coq", GW_COQ, "-json", GW_JSON], timeout=600)
    if rc != 0:
        rep.violation({"property": "C15", "broken_tie": "tools/globalwrites failed on /repo's working tree (does not parse?)",
                       "log_tail": out[-2000:]}, name="globalwrites-run", no_input=True)
        return {"coverage": cov}
    gw = json.load(open(GW_JSON))
    bad = gw.get("not_allowed") or []
    bad_esc = gw.get("escapes_not_allowed") or []
    bad_t = gw.get("tbaa_not_allowed") or []
    bad_m = gw.get("map_ranges_not_allowed") or []
    cov["global_write_inventory"] = {"package_level_vars": gw["globals"], "write_sites_outside_init": gw["writes"],
                                     "of_which_through_a_local_alias": gw.get("alias_writes"),
                                     "vars_of_reference_carrying_type": gw.get("ref_globals"),
                                     "escaping_globals": gw.get("escaping_globals"), "escape_sites": gw.get("escape_sites"),
                                     "stores_into_types_reachable_from_globals": gw.get("tbaa_writes"),
                                     "map_ranges_outside_init": gw.get("map_ranges"),
                                     "allow_list_lines": gw["allow_lines"],
                                     "not_allowed": len(bad) + len(bad_esc) + len(bad_t) + len(bad_m),
                                     "unused_allow_lines": gw.get("unused_allow_lines") or []}
    if gw.get("type_errors"):
        cov["global_write_inventory"]["type_errors_in_module"] = gw["type_errors"][:5]

    multi = gw.get("resume_stack_not_single_key") or []
    cov["global_write_inventory"]["resume_stack_constructions"] = gw.get("resume_stack_constructions")
    for st in multi[:4]:
        rep.violation({"property": "C15",
                       "broken": "a tree.ResumeStack is built with more than one key (or by make/conversion): ResumeStack.Unpack "
                                 "returns whichever entry Go's randomised map iteration visits first (C15_site_unpack_multi_refuted); "
                                 "theorem C15_resume_stacks_single_key fails",
                       "site": "%s:%d" % (st["file"], st["line"]), "keys": st["keys"]},
                      name="resumestack-%s-%d" % (st["file"].replace("/", "_"), st["line"]), no_input=True)

    # report the uncovered sites at the end, when we know whether the runtime
    # streams (concurrent / history / race) produced a concrete failing input
    if bad or bad_esc or bad_t or bad_m:
        orig_finish = rep.finish

        def finish(level, coverage, assumptions):
            runtime = [p for p in rep.violations]
            replay = "cd /verif/tools/globalwrites && go run . -repo /repo -allow allow.txt"

            def site(w):
                return "%s:%d" % (w["file"], w["line"])
            for w in bad[:6]:
                rep.violation({"property": "C15",
                               "broken": "write to a package-level variable outside init() not covered by tools/globalwrites/allow.txt"
                                         + (" (through a local alias loaded from it in the same function)" if w["kind"].startswith("alias-") else "")
                                         + ": the hypothesis of C15_noninterference (no step writes a global) is no longer discharged; "
                                         "theorem C15_globals_readonly fails",
                               "site": site(w), "variable": w["var"], "operation": w["kind"] + " " + w["detail"],
                               "function": w["func"], "failing_inputs_found_by_runtime_streams": runtime, "how_to_replay": replay},
                              name="globalwrite-%s-%d" % (w["file"].replace("/", "_"), w["line"]), no_input=not runtime)
            for w in bad_esc[:6]:
                rep.violation({"property": "C15",
                               "broken": "reference-carrying data of a package-level variable is handed out (%s %s) at a site no reviewed line of "
                                         "tools/globalwrites/allow.txt covers: whoever holds it can write into state shared by all renders "
                                         "(e.g. a per-render cache replaced by a package-level one); theorem C15_escaping_globals_reviewed fails"
                                         % (w["kind"], w["detail"]),
                               "site": site(w), "variable": w["var"], "function": w["func"],
                               "failing_inputs_found_by_runtime_streams": runtime, "how_to_replay": replay},
                              name="globalescape-%s-%d" % (w["file"].replace("/", "_"), w["line"]), no_input=not runtime)
            for w in bad_t[:6]:
                rep.violation({"property": "C15",
                               "broken": "store through a reference (%s) into an object of type %s, which is reachable from the package-level variable %s "
                                         "(and from every value shared like it: declared values of a stylesheet, parsed dictionaries), in a function "
                                         "no reviewed line covers: the store may hit data shared between elements / renders; "
                                         "theorem C15_stores_into_shared_types_reviewed fails" % (w["op"], w["type"], w["via"]),
                               "site": site(w), "function": w["func"],
                               "failing_inputs_found_by_runtime_streams": runtime, "how_to_replay": replay},
                              name="sharedstore-%s-%d" % (w["file"].replace("/", "_"), w["line"]), no_input=not runtime)
            for w in bad_m[:6]:
                rep.violation({"property": "C15",
                               "broken": "range over a Go map (%s, body shape `%s`) that is neither a modelled site nor reviewed as order-insensitive: "
                                         "the random iteration order may reach the output; theorem C15_map_ranges_reviewed fails" % (w["type"], w["shape"]),
                               "site": site(w), "function": w["func"],
                               "failing_inputs_found_by_runtime_streams": runtime, "how_to_replay": replay},
                              name="maprange-%s-%d" % (w["file"].replace("/", "_"), w["line"]), no_input=not runtime)
            return orig_finish(level, coverage, assumptions)
        rep.finish = finish

    # ---- 2. race binary
    if shutil.which("gcc") or shutil.which("cc"):
        rc, out = corr.go_build("./cmd/c15", RACE_BIN, race=True, timeout=1500)
        if rc == 0:
            tier = rep.tier
            os.environ["VERIF_C15_RACE_BIN"] = RACE_BIN
            os.environ["VERIF_C15_RACE_N"] = RACE_N.get(tier, "16")
            os.environ["VERIF_C15_RACE_ROUNDS"] = RACE_ROUNDS.get(tier, "1")
            cov["race_detector"] = "go build -race binary run on %s documents in concurrent batches of 8" % os.environ["VERIF_C15_RACE_N"]
        else:
            os.environ.pop("VERIF_C15_RACE_BIN", None)
            rep.violation({"property": "C15", "broken_tie": "harness does not build with -race against /repo's working tree",
                           "log_tail": out[-2000:]}, name="race-build", no_input=True)
    else:
        os.environ.pop("VERIF_C15_RACE_BIN", None)
        cov["race_detector"] = "NOT RUN: no C compiler for cgo (go build -race needs gcc)"
    return {"coverage": cov}


SPEC = {
    "id": "C15",
    "harness": "c15",
    "n": {"quick": 40, "thorough": 600},
    "shard": 120,
    "pre": pre,
    "harness_timeout": 6000,
    "trusted_base": [
        "tools/globalwrites: (1) SYNTACTIC inventory of writes rooted at a package-level variable (go/parser); (2) TYPED inventories (go/types over `go list -export` of the harness module): stores through a LOCAL alias loaded from a global in the same function, flow-insensitive (alias-*), every site where reference-carrying data of a global leaves the pure-read position (escapes), every store through a reference into an object whose static type is reachable from a global's type unless the object is created in the same function (tbaa), every range over a map. RESIDUAL BLIND SPOT: a reference into shared data that crosses a function boundary (parameter, field, return value) and is then written through an object whose static type is NOT attributable -- unnamed slices/maps/pointers of basic element type ([]string, []byte, map[string]Float, *float64), interface{} / non-module interfaces, closures' captured variables, reflection, unsafe, append into spare capacity of a shared backing array -- or inside a function the allow-list already covers for that (type, operation) (e.g. a NEW caller passing a shared map to the allowed setter Properties.SetX other than directly on the global); init() bodies and helpers called only from init() are not distinguished; the link between `readonly`/`benign` in Draw/Determinism.v and these lists is by reading, not by proof",
        "tools/globalwrites/allow.txt (180 reviewed lines, each with its justification: log.Logger, regexp.Regexp, strings.Replacer are documented goroutine-safe; the hyphenation cache is mutex-protected and stores a pure function of embedded data (C15_memo_cache_transparent); per (variable, how, callee) for escapes, per (type, operation, function) for stores, per (function, map type, body shape) for map ranges)",
        "the trace digest is SHA-256 truncated to 64 bits per section (a collision would hide a difference)",
        "recording backend verifharness/vlib/render (what it records is the observable); fonts Ahem + weasyprint.otf from /repo/resources_test (also as @font-face files); pango engine for 5 of 6 documents, go-text for the rest",
        "Go race detector (dynamic: reports only races that occur on the executed schedules)",
        "/repo hook html/layout/verif_export_c15.go (VerifBrokenMapRun drives the unexported brokenOutOfFlowMap)",
        "C15_resume_stacks_single_key covers composite literals, make() and conversions of tree.ResumeStack; that no code adds a key by an index store (stack[k] = v) is by grep, not by the translator",
        "external functions of the site models are Section variables: computedFromCascaded, GetAnchor, ParseAgain's text, floatLayout/absoluteBoxLayout (`place`); sort.Strings is assumed to sort; the mutex of dictionariesCache is modelled as atomic steps",
    ],
    "not_modelled": [
        "data-race freedom itself (a memory-model property): covered only by the -race runs, labelled runtime evidence",
        "map-iteration sites other than the modelled ones (anchors per page, pseudo-element styles, SVG cascade/inherit/use, string-set & bookmark pass, brokenOutOfFlow, ResumeStack.Unpack): covered only by the whole-trace comparisons",
        "whether multi-key ResumeStacks ever reach Unpack in a layout (Unpack on such a stack IS order-dependent: C15_site_unpack_multi_refuted); no generated document showed a trace difference",
        "attachments, remote (http) resources, raster formats other than a 1x1 PNG data URL",
    ],
    "codes": {"1": "the same document rendered again in the same process gave a different trace",
              "3": "the same document gave a different trace in another fresh process",
              "4": "a document rendered concurrently with 7 others gave a different trace than sequentially",
              "5": "history dependence: trace alone differs from trace after other documents",
              "6": "anchors handed to the backend are not in the model's (sorted, first page wins) order",
              "7": "the Go race detector reported a data race during concurrent renders",
              "8": "ResumeStack.Unpack returned something that is not an entry of the stack",
              "9": "brokenOutOfFlowMap.values() differs from the insertion-ordered model",
              "10": "the SAME document.Document written again (Write on a fresh backend) gave a different trace: Write keeps state on the Document"},
    "theorems_for_kind": {
        "repeat": "C15_site_perm_invariant_* (every modelled map-iteration site is permutation-invariant; the others: C15_map_ranges_reviewed) and C15_sequential_is_alone (the same document again): a render is a function of its input",
        "fresh-process": "C15_site_perm_invariant_* (map iteration order is re-randomised per process)",
        "concurrent": "C15_noninterference (under C15_globals_readonly) / C15_benign_noninterference",
        "history": "C15_sequential_is_alone (under C15_globals_readonly) / C15_benign_sequential_is_alone + C15_memo_cache_transparent (the hyphenation cache); refuted shapes: C15_ratio_cache_shared_refuted, C15_shared_pointer_inplace_refuted",
        "rewrite": "C15_sequential_is_alone (the same document again: a Write is a function of (Document, zoom); the Document is the render's context and Write a read-only step of it)",
        "anchors": "C15_site_perm_invariant_anchors / C15_anchors_sorted",
        "race": "hypothesis of C15_noninterference: no step writes shared state (runtime evidence; no Gallina counterpart)",
        "unpack": "C15_unpack_result_is_an_entry / C15_site_perm_invariant_unpack_single",
        "omap": "C15_ordered_map_dict_semantics / C15_site_perm_invariant_brokenOutOfFlow",
    },
    "rule": "corpus/C15/*.json first, then SplitMix64-seeded paginated documents interleaved with table probes. Documents: many ids per page, internal/external/dangling links, ::before/::after/::marker, floats and abspos broken across pages, counters, target-counter/target-text, string-set, running elements, bookmarks, inline SVG, tables, flex, columns, CSS grid (areas, spans, fr, named lines), data-URL and file images (image cache), hyphens:auto in every language that has a dictionary with words DERIVED FROM THE DICTIONARY'S PATTERNS (non-standard patterns of hu/de/af/ro/eo/sq/mn/te/zu included) plus natural words, quotes:auto with language tags that are not keys of the table, counter styles (UA and @counter-style, extends chains, cycles), the full HTML5 UA stylesheet with presentational hints, @font-face rules giving the same family name to different font files in different documents with lengths in ex/ch/rem, invalid CSS (logger); user stylesheets from a pool that contains one declaration per computed-value function with element-dependent values (em/ex/ch/%/currentColor/attr()/counters), parsed ONCE per process and shared between renders like the UA sheets. Probes: hyphenation of pattern-derived words for every dictionary, every predefined counter style over a value range, GetLangQuotes over language tags. Every document and probe: 5 renders in a row + once more after the others in one process, first render of 2 other fresh processes with different predecessors, alone in a fresh process, concurrently in a batch of 8, at the end of the harness process after everything else; stream rewrite-same-doc: ONE document.Document (dedicated multi-page documents with h1-h6 / bookmark-level bookmarks, ids, anchor: attr(), internal / dangling / external links, link: attr(), transformed boxes, attachments, page marks -- and every corpus / generated document) written four times on fresh recording backends at zoom 1, 1, z, 1: writes #2 and #4 must equal #1, write #3 the first write at zoom z of a fresh Document (traces are snapshots copied right after each Write); plus Unpack calls and random histories on brokenOutOfFlowMap; some documents twice with another root font size (siblings, same shared stylesheets); race binary (runs alongside) on corpus x4, probes x4 and batches grouped by shared stylesheet; non-trivial = document renders with > 50 backend events / multi-op history; distinct by document and comparison kind",
}
MANIFEST = {
    "text": "Coq theorems: permutation-invariance of each modelled Go-map iteration site (anchors per page after sort = canonical-order lemma; pseudo-element styles, SVG attribute cascade, string-set/bookmark pass via a commutation lemma for folds over independent keys; insertion-ordered brokenOutOfFlow map), refutation witnesses for the two sites that were order-sensitive on the pinned tree (repaired in /repo) and for Unpack on multi-key stacks, and non-interference of N interleaved renders under the hypothesis that no step writes a global -- or writes it benignly: a memo cache of a pure function is proved transparent under every schedule and history (the hyphenation cache), while a cache whose value depends on the render (ex/ch ratios) and a store through a pointer into a shared table are refuted. A source translator (go/parser + go/types) re-discharges the hypotheses on every run by vm_compute over generated lists: writes to globals incl. through local aliases, escapes of reference-carrying global data, stores into types reachable from globals, ranges over maps, each against a reviewed allow-list. Tie: full backend traces of generated documents compared across repeats, fresh processes, concurrent-vs-sequential and histories; anchors and ordered-map histories evaluated against the model; race-detector runs.",
    "note": "Data-race freedom is runtime evidence only (go -race on executed schedules). The inventories are static over-approximations with hand-reviewed allow-lists; a reference crossing a function boundary and written through a non-attributable type (unnamed slices/maps of basic elements, interface{}, closures) is not seen (trusted_base states the blind spot). Sites not modelled are covered only by trace comparison. External functions (computed values, float placement, counter text) are Section variables.",
    "technique": "Coq proof over executable models + source translator (global write inventory) + differential trace comparison of the Go implementation (vm_compute check of digests/anchors/ordered-map) + go race detector",
}
