"""C07 -- parsers of document-supplied text never crash.

Proved part: Coq totality theorems over Panic-monad ports (Properties/C07.v).
Tie: go/cmd/c07 runs /repo on generated inputs in watchdog-ed worker processes;
  * modelled components: the case carries the input and the implementation's
    outcome/value, the Coq model is evaluated on the same input (vm_compute);
  * tested-only components (validators, expanders, descriptor parsers, whole
    stylesheets / selectors / SVG documents / data: URLs / HTML documents):
    `CTotal component outcome`, any Panic/Fatal/Hang is a failing input.
The generic corr.run_check is reused; only the sharding differs (CTotal terms are
tiny, so they go in large shards) and --replay re-runs the implementation.
"""
import json
import os
import sys

sys.path.insert(0, os.path.dirname(os.path.dirname(os.path.abspath(__file__))))
from lib import corr  # noqa: E402

PROVED = [
    "utils.Unquote / net/url.PathUnescape (Css/Urls.v path_unescape, unquote)",
    "utils.unescape, data: payload percent-decoding incl. utf8.DecodeRune (Css/Urls.v unescape)",
    "utils.parseDataURL + the data: branch of DefaultUrlFetcher up to base64 (Css/Urls.v parse_data_url, fetch_data_url)",
    "css/parser.ParseNth (Css/PageSel.v parse_nth)",
    "html/tree.parsePageSelectors (Css/PageSel.v parse_page_selectors)",
    "html/boxes.integerAttribute: colspan/rowspan/span (Css/HtmlAttr.v integer_attribute) and its call sites NewTableCellBox / TableColumnBox.span / TableColumnGroupBox.span with their lower bounds and clamps (cell_colspan, cell_rowspan, column_span, column_group_span); <font size> (font_size_attr)",
    "svg.parsePreserveAspectRatio, parseURL stripping, newPainter, parseValue, parseOpacity, parseFontWeight (Css/SvgAttr.v)",
    "css/parser.ParseColor control flow incl. parseCommaSeparated / rgb / rgba / hsl / hsla / hash colours (Css/ColorMq.v parse_color)",
    "html/tree.parseMediaQuery, pa.SplitOnComma, the @import prelude (Css/ColorMq.v parse_media_query, import_media)",
    "utils.parseW3cDate + toInt + the w3CDateRe regular expression as a recursive-descent recogniser: <meta name=dcterms.created / dcterms.modified> (Css/W3cDate.v parse_w3c_date, match_w3c)",
]
TESTED_ONLY = [
    "css/validation: ~300 property validators and shorthand expanders through PreprocessDeclarations (component decl, styleattr)",
    "css/validation: @font-face descriptors (fontface), @counter-style descriptors + Validate (counterstyle)",
    "html/tree.NewCSSDefault on whole stylesheets: @page/@media/@import/@font-face/@counter-style/@namespace, nested rules (stylesheet)",
    "css/selector.ParseGroup (selector)", "svg.Parse on whole documents (svg)", "utils.DefaultUrlFetcher on data: URLs incl. base64 (dataurl-fetch)",
    "tree.NewHTML + GetAllComputedStyles with presentational hints + boxes.BuildFormattingStructure + GetMetadata + layout.Layout (the numbers read from the attributes are used by the table grid / layout) on documents with malformed attributes (html)",
    "tree.NewHTML + GetMetadata (utils.GetHtmlMetadata): <title>, <meta name content> (keywords, author, W3C dates with digit runs of every length in every numeric field), <link rel=attachment> (metadata)",
    "css/parser.ParseColorString (color), css/parser Tokenize/ParseStylesheet/ParseDeclarationList/Serialize on mutated text (cssparse)",
]

SPEC = {
    "id": "C07",
    "harness": "c07",
    "n": {"quick": 26000, "thorough": 600000},   # random streams; the ~28000 deterministic edge inputs come on top
    "shard": 500,
    "tie_codes": (3,),   # value differs but nobody crashes: the tie is broken, the property itself still holds on that input
    "trusted_base": [
        "/repo hooks */verif_export_c07.go (accessors of unexported parsers)",
        "abstraction of css tokens to Css/PageSel.v ptok done by the harness (ident/literal/number/dimension/function/whitespace/comment/other)",
        "net/url.Parse, strconv.ParseFloat, encoding/base64 are library code outside the models (the models return the string handed to them)",
        "wf_toks hypothesis of parse_nth_total / parse_page_selectors_total (identifiers and number texts are never empty) is a tokenizer property (C06)",
        "worker pool + watchdog of go/vlib (a dead worker = Fatal, a silent one = Hang)",
    ],
    "not_modelled": [
        "property validators, shorthand expanders, @font-face/@counter-style descriptor parsers (~6500 lines of Go): tested by the CTotal stream only",
        "components modelled by other properties: tokenizer/rule parsers (C06), selector parser (C05), SVG number/path/transform scanners (C18), counter-style rendering (C19), var() resolution (C08), bookmark tree (C14)",
        "base64 decoding, net/url parsing, float parsing",
    ],
    "codes": {"1": "crash/no-crash disagreement between implementation and model", "3": "implementation and model return different values",
              "4": "tested-only component panicked / died / hung on this input", "5": "implementation and model both panic (a modelled genuine defect)",
              "6": "a table span built from the attribute (td colspan / rowspan, col / colgroup span) is outside the range proved in C07_table_spans_range (colspan, span in [1, 1000]; rowspan in [0, 65534]) that the table grid and layout index with: the crash is downstream (tableAndColumnsPreferredWidths)"},
    "theorems_for_kind": {
        "unquote": "C07_unquote_total", "unescape": "C07_unescape_total", "dataurl": "C07_parse_data_url_total", "fetchdata": "C07_fetch_data_url_total",
        "pagesel": "C07_parse_page_selectors_total", "nth": "C07_parse_nth_total", "intattr": "C07_integer_attribute_total / C07_integer_attribute_spec",
        "spans": "C07_table_spans_range / C07_cell_colspan_spec / C07_cell_rowspan_spec / C07_column_span_spec",
        "par": "C07_parse_preserve_aspect_ratio_total", "svgvalue": "C07_parse_value_total", "svgopacity": "C07_parse_opacity_total",
        "svgurl": "C07_parse_url_strip_total", "painter": "C07_new_painter_total", "fontweight": "C07_parse_font_weight_total",
        "colortok": "C07_parse_color_total", "media": "C07_parse_media_query_total",
        "w3cdate": "C07_parse_w3c_date_total / C07_to_int_total_bounded / C07_w3c_groups_bounded",
        "deep": "the property text (terminates on every input, no crash); components of C05/C06 and the tested-only ones",
    },
    "rule": "one SplitMix64 seed; regression corpus first; deterministic boundary streams (go/cmd/c07/edge.go, ~28000 inputs, tag edge): the end of input after EVERY BYTE of well-formed inputs of every component (the CSS constructs of go/cssedge covering each scanner and look-ahead of the tokenizer, one valid value per property / descriptor, whole stylesheets, selectors, @page selectors, An+B, media queries, colours, data: URLs, percent-encoded strings, HTML and SVG attribute values), W3C dates of <meta> with every numeric field of every shape replaced by digit runs of every length 0..300 and the int64 / uint64 boundary numbers (through parseW3cDate and through NewHTML + GetMetadata) control characters (FF CR LF CRLF NUL TAB VT DEL ...) raw in every lexical context of the selector parser (60 texts x 12 characters, alone and as a rule prelude), every An+B form with one extra token of every kind before / after it, table span attributes (every integer around the bounds 0 1 1000 65534 of colspan / rowspan / span in every spelling, through /repo's box constructors) and exhaustive neighbourhoods (per tokenizer scanner: entering heads + all short strings over the symbols it distinguishes; all strings of length <= 4 over {%, hex, non-hex} for the percent decoders; data: + all short strings over the separators of parseDataURL); then the random streams: property values = sequences of atoms each property accepts alone (discovered at start-up from a dictionary harvested from /repo's validator sources) then mutated (delete, duplicate, swap unit, f(), var() insertion, huge numbers, nesting, stray delimiters, truncation); at-rules, selectors, SVG documents, data: URLs, HTML attribute documents from pools of valid and malformed fragments with byte-level mutations; non-trivial = non-empty input; distinct by (component, input)",
}
MANIFEST = {
    "text": "Coq totality theorems (result is Ok for ALL inputs, every slice/index a Panic site, loops on fuel) for hand ports of percent-decoding, data: URI splitting, An+B, @page selectors, HTML integer attributes and the SVG attribute parsers; refutations with witnesses for the code as found (@page :nth(of), preserveAspectRatio=\"abc\"); each model is compared with /repo on generated inputs on every run. Validators / expanders / descriptor parsers and whole-document entry points are TESTED on every run (30k malformed inputs in watchdog-ed workers), not proved.",
    "note": "Partial by design (DESIGN 5, C07): 'never crashes' is proved only for the modelled parsers; the other modelled components are proved under C05/C06/C08/C14/C18/C19; validators, expanders, descriptors, svg.Parse, NewCSSDefault, DefaultUrlFetcher are covered by fuzzing in support of the tie (evidence: coverage.tested_only_components). Trusted: Coq kernel, harness + hooks, token abstraction, library code (net/url.Parse, strconv, base64).",
    "technique": "Coq proof over Panic-monad ports + vm_compute correspondence; grammar-based fuzzing with worker watchdog for the unmodelled components",
}


def _eval_split(orig):
    def eval_cases(pid, module, cases, shard=250, **kw):
        total = [i for i, c in enumerate(cases) if c["coq"].startswith("CTotal ")]
        model = [i for i, c in enumerate(cases) if not c["coq"].startswith("CTotal ")]
        mism, errors = [], []
        for idx, sh in ((model, shard), (total, 4000)):
            if not idx:
                continue
            m, e = orig(pid, module, [cases[i] for i in idx], shard=sh, **kw)
            mism += [(idx[a], code) for a, code in m]
            errors += e
        return sorted(mism), errors
    return eval_cases


def run(tier, replay=None):
    spec = dict(SPEC)
    orig = corr.eval_cases
    corr.eval_cases = _eval_split(orig)
    try:
        if replay:
            replay = os.path.abspath(replay)
            # re-run the implementation on the recorded input, then the model on the fresh case
            binp = os.path.join(corr.WORK, "bin", "c07")
            os.makedirs(os.path.dirname(binp), exist_ok=True)
            rc, out = corr.go_build("./cmd/c07", binp)
            if rc != 0:
                print(out[-2000:])
                return 1
            os.makedirs(os.path.join(corr.WORK, "C07"), exist_ok=True)
            fresh = os.path.join(corr.WORK, "C07", "replay_cases.jsonl")
            rc, out = corr.sh([binp, "-replay", replay, "-out", fresh], cwd=os.path.join(corr.ROOT, "go"), timeout=300)
            if rc != 0:
                print(out[-2000:])
                return 1
            cases = corr.read_cases(fresh)
            tmp = os.path.join(corr.WORK, "C07", "replay_fresh.json")
            json.dump({"case": cases[0]}, open(tmp, "w"))
            replay = tmp
        rc = corr.run_check(spec, tier, replay)
    finally:
        corr.eval_cases = orig
    # theorems of the components modelled under other properties, re-exported in Properties/C07Components.v
    comp = {"file": "coq/theories/Properties/C07Components.v", "available": False, "theorems": [], "axioms": []}
    try:
        rcm, outm = corr.coq_make(["theories/Properties/C07Components.vo"], timeout=1500)
        if rcm == 0:
            src = os.path.join(corr.COQ, "theories", "Properties", "C07Components.v")
            rcc, outc = corr.sh(["coqc", "-Q", "theories", "Verif", "-w", "-notation-overridden", "-o",
                                 os.path.join(corr.WORK, "C07", "C07Components.vo"), src], cwd=corr.COQ, timeout=900)
            import re
            names = re.findall(r"^Theorem\s+([A-Za-z0-9_']+)", open(src).read(), re.M)
            comp.update(available=(rcc == 0), theorems=names if rcc == 0 else [],
                        closed_under_global_context=outc.count("Closed under the global context"),
                        axioms=sorted(set(re.findall(r"^([A-Za-z0-9_.']+)\s*\n?\s*:", outc, re.M)) - {"Axioms"} - set(names)))
        else:
            comp["log_tail"] = outm[-800:]
    except Exception as e:  # never fails the check: these theorems belong to other properties
        comp["error"] = str(e)
    if not comp["available"]:
        print("C07: note: Properties/C07Components.v (re-exports of other properties' totality theorems) is not available on this tree")
    # add the proved / tested-only split to the evidence
    evp = os.path.join(corr.ROOT, "evidence", "C07.json")
    try:
        ev = json.load(open(evp))
        ev["coverage"]["proved_components"] = PROVED
        ev["coverage"]["tested_only_components"] = TESTED_ONLY
        ev["coverage"]["component_theorems_of_other_properties"] = comp
        with open(evp, "w") as f:
            json.dump(ev, f, indent=1, sort_keys=True, default=str)
            f.write("\n")
    except Exception as e:  # evidence must exist
        print("C07: cannot annotate evidence:", e)
        return 1
    return rc
